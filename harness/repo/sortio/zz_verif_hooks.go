//go:build verif
// +build verif

package sortio

// VerifSetChunk sets the package's copy of the internal vector size (taken
// from defaultsize.Chunk at package initialisation) and returns the old value.
// Verification hook; compiled only with the build tag "verif".
func VerifSetChunk(n int) int {
	old := defaultChunksize
	defaultChunksize = n
	return old
}
