//go:build verif
// +build verif

// Package c11 checks property C11: frame views are transparent and never touch
// rows outside the view. A generated sequence of public frame operations is
// applied to real frames and, step by step, to a plain slice-of-rows model that
// tracks the whole parent storage of every frame.
package c11

import (
	"bytes"
	"encoding/gob"
	"encoding/json"
	"fmt"
	"os"
	"reflect"
	"sort"
	"testing"
	"unsafe"

	"github.com/grailbio/bigslice/frame"
	"github.com/grailbio/bigslice/slicetype"
	"github.com/grailbio/bigslice/zzverif/vt"
	"pgregory.net/rapid"
)

func TestMain(m *testing.M) {
	code := m.Run()
	vt.Flush()
	os.Exit(code)
}

// ---------------------------------------------------------------------------
// Column type universe.

type s3 struct{ A, B, C uint8 }
type sStr struct {
	S string
	N int
}
type sPtr struct{ P *int }

// codecT has custom Encode/Decode ops registered below.
type codecT struct{ X int32 }

var ptrPool = func() []*int {
	p := make([]*int, 6)
	for i := 1; i < len(p); i++ {
		v := i * 11
		p[i] = &v
	}
	return p
}()

type colType struct {
	name    string
	typ     reflect.Type
	keyable bool // Less and Hash ops registered
	val     func(k int) interface{}
	less    func(a, b interface{}) bool
}

func mk(name string, zero interface{}, keyable bool, val func(k int) interface{}, less func(a, b interface{}) bool) colType {
	return colType{name, reflect.TypeOf(zero), keyable, val, less}
}

var universe = []colType{
	mk("int", int(0), true, func(k int) interface{} { return int(k - 3) }, func(a, b interface{}) bool { return a.(int) < b.(int) }),
	mk("int8", int8(0), true, func(k int) interface{} { return int8(k*37 - 100) }, func(a, b interface{}) bool { return a.(int8) < b.(int8) }),
	mk("int16", int16(0), true, func(k int) interface{} { return int16(k*1000 - 3000) }, func(a, b interface{}) bool { return a.(int16) < b.(int16) }),
	mk("int32", int32(0), true, func(k int) interface{} { return int32(k*100000 - 250000) }, func(a, b interface{}) bool { return a.(int32) < b.(int32) }),
	mk("int64", int64(0), true, func(k int) interface{} { return int64(k)*(1<<40) - (1 << 41) }, func(a, b interface{}) bool { return a.(int64) < b.(int64) }),
	mk("uint8", uint8(0), true, func(k int) interface{} { return uint8(k * 41) }, func(a, b interface{}) bool { return a.(uint8) < b.(uint8) }),
	mk("uint16", uint16(0), true, func(k int) interface{} { return uint16(k * 9001) }, func(a, b interface{}) bool { return a.(uint16) < b.(uint16) }),
	mk("uint32", uint32(0), true, func(k int) interface{} { return uint32(k) * 600000000 }, func(a, b interface{}) bool { return a.(uint32) < b.(uint32) }),
	mk("uint64", uint64(0), true, func(k int) interface{} { return uint64(k) * (1 << 61) }, func(a, b interface{}) bool { return a.(uint64) < b.(uint64) }),
	mk("float64", float64(0), true, func(k int) interface{} { return float64(k)*1.5 - 4 }, func(a, b interface{}) bool { return a.(float64) < b.(float64) }),
	mk("string", "", true, func(k int) interface{} {
		if k == 0 {
			return ""
		}
		return fmt.Sprintf("s%d", k%5) + string(make([]byte, k%3))
	}, func(a, b interface{}) bool { return a.(string) < b.(string) }),
	mk("bytes", []byte(nil), true, func(k int) interface{} {
		if k == 0 {
			return []byte(nil)
		}
		return []byte(fmt.Sprintf("b%d", k%4))
	}, func(a, b interface{}) bool { return bytes.Compare(a.([]byte), b.([]byte)) < 0 }),
	mk("bool", false, true, func(k int) interface{} { return k%2 == 1 }, func(a, b interface{}) bool { return !a.(bool) && b.(bool) }),
	mk("arr2i32", [2]int32{}, false, func(k int) interface{} { return [2]int32{int32(k), int32(-k)} }, nil),
	mk("s3", s3{}, false, func(k int) interface{} { return s3{uint8(k), uint8(k + 1), uint8(k + 2)} }, nil),
	mk("ptr", (*int)(nil), false, func(k int) interface{} { return ptrPool[k%len(ptrPool)] }, nil),
	mk("sStr", sStr{}, false, func(k int) interface{} { return sStr{fmt.Sprintf("x%d", k), k} }, nil),
	mk("sPtr", sPtr{}, false, func(k int) interface{} { return sPtr{ptrPool[k%len(ptrPool)]} }, nil),
	mk("codecT", codecT{}, false, func(k int) interface{} { return codecT{int32(k * 7)} }, nil),
	mk("struct0", struct{}{}, true, func(k int) interface{} { return struct{}{} }, func(a, b interface{}) bool { return false }),
}

func init() {
	frame.RegisterOps(func(slice []codecT) frame.Ops {
		return frame.Ops{
			Encode: func(e frame.Encoder, i, j int) error {
				return e.Encode(slice[i:j])
			},
			Decode: func(d frame.Decoder, i, j int) error {
				var tmp []codecT
				if err := d.Decode(&tmp); err != nil {
					return err
				}
				if len(tmp) != j-i {
					return fmt.Errorf("codecT: decoded %d values into range of %d", len(tmp), j-i)
				}
				copy(slice[i:j], tmp)
				return nil
			},
		}
	})
}

type gobCoder struct {
	buf bytes.Buffer
	enc *gob.Encoder
	dec *gob.Decoder
}

func newGobCoder() *gobCoder {
	c := &gobCoder{}
	c.enc = gob.NewEncoder(&c.buf)
	c.dec = gob.NewDecoder(&c.buf)
	return c
}
func (c *gobCoder) State(key frame.Key, state interface{}) bool { return true }
func (c *gobCoder) Encode(v interface{}) error                  { return c.enc.Encode(v) }
func (c *gobCoder) Decode(v interface{}) error                  { return c.dec.Decode(v) }

// ---------------------------------------------------------------------------
// Case description (plain data; JSON-encodable so it can be replayed).

type Op struct {
	Kind string `json:"kind"`
	H    int    `json:"h"`           // handle selector
	H2   int    `json:"h2"`          // second handle selector
	A    int    `json:"a"`           // generic ints, interpreted modulo what is valid
	B    int    `json:"b"`
	Rows []int  `json:"rows,omitempty"` // value selectors, row-major, for Slices
}

type Case struct {
	Cols   []int `json:"cols"` // indices into universe
	Prefix int   `json:"prefix"`
	Ops    []Op  `json:"ops"`
}

var bigSizes = []int{1023, 1024, 1025, 1500, 2048, 2049, 3100}

var opKinds = []string{
	"make", "slices", "values", "slice", "slice", "slice", "prefixed", "grow", "ensure", "copy", "copy", "append",
	"swap", "swap", "less", "hash", "zero", "read", "read", "encdec", "sort", "sort",
}

func genCase(t *rapid.T) Case {
	var c Case
	ncol := rapid.IntRange(1, 3).Draw(t, "ncol")
	// first column must be keyable so that Less/Hash/sort are defined for prefix 1
	keyables := []int{}
	for i, u := range universe {
		if u.keyable {
			keyables = append(keyables, i)
		}
	}
	c.Cols = append(c.Cols, rapid.SampledFrom(keyables).Draw(t, "col0"))
	maxPrefix := 1
	for i := 1; i < ncol; i++ {
		ci := rapid.IntRange(0, len(universe)-1).Draw(t, "col")
		c.Cols = append(c.Cols, ci)
		if universe[ci].keyable && maxPrefix == i {
			maxPrefix = i + 1
		}
	}
	c.Prefix = rapid.IntRange(1, maxPrefix).Draw(t, "prefix")
	nops := rapid.IntRange(1, 24).Draw(t, "nops")
	for i := 0; i < nops; i++ {
		var op Op
		if i == 0 {
			op.Kind = rapid.SampledFrom([]string{"make", "slices", "values", "make", "slices", "values", "make", "slices", "values", "bigvalues"}).Draw(t, "kind0")
		} else {
			op.Kind = rapid.SampledFrom(opKinds).Draw(t, "kind")
		}
		op.H = rapid.IntRange(0, 63).Draw(t, "h")
		op.H2 = rapid.IntRange(0, 63).Draw(t, "h2")
		op.A = rapid.IntRange(0, 40).Draw(t, "a")
		op.B = rapid.IntRange(0, 40).Draw(t, "b")
		if op.Kind == "slices" || op.Kind == "values" {
			n := rapid.IntRange(0, 9).Draw(t, "nrows")
			op.Rows = rapid.SliceOfN(rapid.IntRange(0, 6), n*ncol, n*ncol).Draw(t, "rows")
		}
		c.Ops = append(c.Ops, op)
	}
	return c
}

// ---------------------------------------------------------------------------
// Model.

type storage struct {
	cols []reflect.Value // the Go slices backing the frame: ground truth for reads (len == cap == n)
	root frame.Frame     // frame over the whole storage (offset 0)
	rows [][]interface{} // model: rows[i][col]
}

type handle struct {
	st          *storage
	off, n, cap int
	prefix      int
	f           frame.Frame
}

type world struct {
	c        Case
	types    []colType
	storages []*storage
	handles  []*handle
	viewOps  int // operations applied to a view with offset > 0
	log      []string
}

func (w *world) zeroRow() []interface{} {
	r := make([]interface{}, len(w.types))
	for i, ct := range w.types {
		r[i] = reflect.Zero(ct.typ).Interface()
	}
	return r
}

func eqVal(a, b interface{}) bool {
	if ab, ok := a.([]byte); ok {
		bb := b.([]byte)
		return (ab == nil) == (bb == nil) && bytes.Equal(ab, bb)
	}
	return a == b
}

// newStorage registers a storage whose backing slices are cols (len == cap).
func (w *world) newStorage(cols []reflect.Value, root frame.Frame) *storage {
	st := &storage{cols: cols, root: root}
	n := 0
	if len(cols) > 0 {
		n = cols[0].Len()
	}
	for i := 0; i < n; i++ {
		row := make([]interface{}, len(cols))
		for c := range cols {
			row[c] = cols[c].Index(i).Interface()
		}
		st.rows = append(st.rows, row)
	}
	w.storages = append(w.storages, st)
	return st
}

// adopt registers storage for a frame created by the package itself (Make,
// Grow beyond capacity, AppendFrame): its backing slices are obtained from a
// offset-0 full view, which Value() returns without any offset arithmetic.
func (w *world) adopt(f frame.Frame) (*storage, error) {
	full := f.Slice(0, f.Cap())
	cols := make([]reflect.Value, f.NumOut())
	for c := range cols {
		cols[c] = full.Value(c)
		if cols[c].Len() != f.Cap() {
			return nil, fmt.Errorf("full view of fresh frame: column %d has length %d, capacity is %d", c, cols[c].Len(), f.Cap())
		}
	}
	return w.newStorage(cols, full), nil
}

func (w *world) checkAll() error {
	for si, st := range w.storages {
		for i, row := range st.rows {
			for c := range row {
				got := st.cols[c].Index(i).Interface()
				if !eqVal(got, row[c]) {
					return fmt.Errorf("storage %d row %d col %d: memory holds %v, model %v", si, i, c, fmtv(got), fmtv(row[c]))
				}
			}
		}
	}
	for hi, h := range w.handles {
		if h.f.Len() != h.n || h.f.Cap() != h.cap || h.f.Prefix() != h.prefix {
			return fmt.Errorf("handle %d: frame len/cap/prefix %d/%d/%d, model %d/%d/%d", hi, h.f.Len(), h.f.Cap(), h.f.Prefix(), h.n, h.cap, h.prefix)
		}
	}
	return nil
}

func fmtv(v interface{}) string { return fmt.Sprintf("%#v", v) }

func (w *world) pick(sel int) *handle { return w.handles[sel%len(w.handles)] }

func (w *world) add(h *handle) {
	if len(w.handles) < 64 {
		w.handles = append(w.handles, h)
	} else {
		w.handles[len(w.handles)-1] = h
	}
}

func (w *world) typ() slicetype.Type {
	ts := make([]reflect.Type, len(w.types))
	for i, ct := range w.types {
		ts[i] = ct.typ
	}
	return prefixedType{slicetype.New(ts...), w.c.Prefix}
}

type prefixedType struct {
	slicetype.Type
	p int
}

func (p prefixedType) Prefix() int { return p.p }

func (w *world) modelLess(h *handle, i, j int) bool {
	ri, rj := h.st.rows[h.off+i], h.st.rows[h.off+j]
	for c := 0; c < h.prefix; c++ {
		if w.types[c].less(ri[c], rj[c]) {
			return true
		}
		if w.types[c].less(rj[c], ri[c]) {
			return false
		}
	}
	return false
}

// freshRow builds an independent single-row frame holding a copy of the row.
func (w *world) freshRow(row []interface{}, prefix int, pad int) frame.Frame {
	cols := make([]interface{}, len(row))
	for c := range row {
		s := reflect.MakeSlice(reflect.SliceOf(w.types[c].typ), pad+1, pad+1)
		s.Index(pad).Set(reflect.ValueOf(row[c]))
		if row[c] == nil {
			s.Index(pad).Set(reflect.Zero(w.types[c].typ))
		}
		cols[c] = s.Interface()
	}
	return frame.Slices(cols...).Prefixed(prefix).Slice(pad, pad+1)
}

func (w *world) step(op Op) (err error) {
	defer func() {
		if r := recover(); r != nil {
			err = fmt.Errorf("panic in %s: %v", op.Kind, r)
		}
	}()
	ncol := len(w.types)
	if len(w.handles) == 0 && op.Kind != "make" && op.Kind != "slices" && op.Kind != "values" && op.Kind != "bigvalues" {
		op.Kind = "make"
	}
	switch op.Kind {
	case "make":
		cp := op.A % 12
		n := 0
		if cp > 0 {
			n = op.B % (cp + 1)
		}
		f := frame.Make(w.typ(), n, cp)
		st, err := w.adopt(f)
		if err != nil {
			return err
		}
		for i, row := range st.rows {
			for c := range row {
				if !eqVal(row[c], reflect.Zero(w.types[c].typ).Interface()) {
					return fmt.Errorf("Make: row %d col %d not zero: %v", i, c, fmtv(row[c]))
				}
			}
		}
		w.add(&handle{st, 0, n, cp, w.c.Prefix, f})
	case "slices", "values":
		n := len(op.Rows) / ncol
		cols := make([]reflect.Value, ncol)
		ifaces := make([]interface{}, ncol)
		for c := range cols {
			cols[c] = reflect.MakeSlice(reflect.SliceOf(w.types[c].typ), n, n)
			for i := 0; i < n; i++ {
				v := w.types[c].val(op.Rows[i*ncol+c])
				if v == nil {
					continue
				}
				cols[c].Index(i).Set(reflect.ValueOf(v))
			}
			ifaces[c] = cols[c].Interface()
		}
		var f frame.Frame
		if op.Kind == "slices" {
			f = frame.Slices(ifaces...)
		} else {
			f = frame.Values(cols)
		}
		f = f.Prefixed(w.c.Prefix)
		st := w.newStorage(cols, f)
		w.add(&handle{st, 0, n, n, w.c.Prefix, f})
	case "bigvalues":
		// a frame of more than a thousand rows (sizes around 1024 and 2048: the package clears and
		// copies in chunks), so that later operations work on large views
		n := bigSizes[op.A%len(bigSizes)]
		cols := make([]reflect.Value, ncol)
		for c := range cols {
			cols[c] = reflect.MakeSlice(reflect.SliceOf(w.types[c].typ), n, n)
			for i := 0; i < n; i++ {
				if v := w.types[c].val((i*7 + op.B + c) % 61); v != nil {
					cols[c].Index(i).Set(reflect.ValueOf(v))
				}
			}
		}
		f := frame.Values(cols).Prefixed(w.c.Prefix)
		st := w.newStorage(cols, f)
		w.add(&handle{st, 0, n, n, w.c.Prefix, f})
	case "slice":
		h := w.pick(op.H)
		i := op.A % (h.cap + 1)
		j := i + op.B%(h.cap-i+1)
		if h.cap > 64 {
			// large frames: the view's length scales with B (40 = everything after i)
			j = i + (h.cap-i)*(op.B%41)/40
		}
		w.add(&handle{h.st, h.off + i, j - i, h.cap - i, h.prefix, h.f.Slice(i, j)})
	case "prefixed":
		h := w.pick(op.H)
		maxp := 1
		for c := 1; c < ncol && w.types[c].keyable && maxp == c; c++ {
			maxp = c + 1
		}
		p := 1 + op.A%maxp
		w.add(&handle{h.st, h.off, h.n, h.cap, p, h.f.Prefixed(p)})
	case "grow", "ensure":
		h := w.pick(op.H)
		if h.off > 0 {
			w.viewOps++
		}
		var g frame.Frame
		var want int
		if op.Kind == "grow" {
			want = h.n + op.A%10
			g = h.f.Grow(op.A % 10)
		} else {
			want = op.A % 14
			g = h.f.Ensure(want)
		}
		if g.Len() != want {
			return fmt.Errorf("%s: result length %d, want %d", op.Kind, g.Len(), want)
		}
		if want <= h.cap {
			// must stay a view of the same storage
			w.add(&handle{h.st, h.off, want, h.cap, h.prefix, g})
			if want > 0 && g.UnsafeIndexPointer(0, 0) != h.f.UnsafeIndexPointer(0, 0) && w.types[0].typ.Size() > 0 {
				return fmt.Errorf("%s within capacity reallocated", op.Kind)
			}
			break
		}
		if g.Cap() < want {
			return fmt.Errorf("%s: capacity %d < length %d", op.Kind, g.Cap(), want)
		}
		st, err := w.adopt(g)
		if err != nil {
			return err
		}
		// expected contents: the view's rows, then zero rows up to capacity
		for i := 0; i < g.Cap(); i++ {
			var exp []interface{}
			if i < h.n {
				exp = h.st.rows[h.off+i]
			} else {
				exp = w.zeroRow()
			}
			for c := range exp {
				if !eqVal(st.rows[i][c], exp[c]) {
					return fmt.Errorf("%s beyond capacity: new row %d col %d is %v, want %v", op.Kind, i, c, fmtv(st.rows[i][c]), fmtv(exp[c]))
				}
			}
		}
		w.add(&handle{st, 0, want, g.Cap(), h.prefix, g})
	case "copy":
		dst, src := w.pick(op.H), w.pick(op.H2)
		if dst.off > 0 || src.off > 0 {
			w.viewOps++
		}
		n := frame.Copy(dst.f, src.f)
		want := dst.n
		if src.n < want {
			want = src.n
		}
		if n != want {
			return fmt.Errorf("Copy returned %d, want %d", n, want)
		}
		snap := make([][]interface{}, want)
		for i := range snap {
			snap[i] = append([]interface{}(nil), src.st.rows[src.off+i]...)
		}
		for i := range snap {
			dst.st.rows[dst.off+i] = snap[i]
		}
	case "append":
		src := w.pick(op.H2)
		if op.A%5 == 0 {
			var zero frame.Frame
			g := frame.AppendFrame(zero, src.f)
			st, err := w.adopt(g)
			if err != nil {
				return err
			}
			if g.Len() != src.n {
				return fmt.Errorf("AppendFrame(zero, src): length %d, want %d", g.Len(), src.n)
			}
			for i := 0; i < src.n; i++ {
				for c := 0; c < ncol; c++ {
					if !eqVal(st.rows[i][c], src.st.rows[src.off+i][c]) {
						return fmt.Errorf("AppendFrame(zero, src): row %d col %d is %v, want %v", i, c, fmtv(st.rows[i][c]), fmtv(src.st.rows[src.off+i][c]))
					}
				}
			}
			w.add(&handle{st, 0, g.Len(), g.Cap(), g.Prefix(), g})
			break
		}
		dst := w.pick(op.H)
		if dst.off > 0 || src.off > 0 {
			w.viewOps++
		}
		snap := make([][]interface{}, src.n)
		for i := range snap {
			snap[i] = append([]interface{}(nil), src.st.rows[src.off+i]...)
		}
		g := frame.AppendFrame(dst.f, src.f)
		want := dst.n + src.n
		if g.Len() != want {
			return fmt.Errorf("AppendFrame: length %d, want %d", g.Len(), want)
		}
		if want <= dst.cap {
			for i := range snap {
				dst.st.rows[dst.off+dst.n+i] = snap[i]
			}
			w.add(&handle{dst.st, dst.off, want, dst.cap, dst.prefix, g})
			break
		}
		st, err := w.adopt(g)
		if err != nil {
			return err
		}
		for i := 0; i < g.Cap(); i++ {
			var exp []interface{}
			switch {
			case i < dst.n:
				exp = dst.st.rows[dst.off+i]
			case i < want:
				exp = snap[i-dst.n]
			default:
				exp = w.zeroRow()
			}
			for c := range exp {
				if !eqVal(st.rows[i][c], exp[c]) {
					return fmt.Errorf("AppendFrame (realloc): row %d col %d is %v, want %v", i, c, fmtv(st.rows[i][c]), fmtv(exp[c]))
				}
			}
		}
		w.add(&handle{st, 0, want, g.Cap(), dst.prefix, g})
	case "swap":
		h := w.pick(op.H)
		if h.n == 0 {
			return nil
		}
		if h.off > 0 {
			w.viewOps++
		}
		i, j := op.A%h.n, op.B%h.n
		h.f.Swap(i, j)
		h.st.rows[h.off+i], h.st.rows[h.off+j] = h.st.rows[h.off+j], h.st.rows[h.off+i]
	case "less":
		h := w.pick(op.H)
		if h.n == 0 {
			return nil
		}
		if h.off > 0 {
			w.viewOps++
		}
		i, j := op.A%h.n, op.B%h.n
		got, want := h.f.Less(i, j), w.modelLess(h, i, j)
		if got != want {
			return fmt.Errorf("Less(%d,%d) on view off=%d prefix=%d: got %v, model %v", i, j, h.off, h.prefix, got, want)
		}
	case "hash":
		h := w.pick(op.H)
		if h.n == 0 {
			return nil
		}
		if h.off > 0 {
			w.viewOps++
		}
		i := op.A % h.n
		seed := uint32(op.B) * 2654435761
		fr := w.freshRow(h.st.rows[h.off+i], h.prefix, op.B%3)
		if got, want := h.f.Hash(i), fr.Hash(0); got != want {
			return fmt.Errorf("Hash(%d) on view off=%d: %#x, independent copy of the row hashes to %#x", i, h.off, got, want)
		}
		if got, want := h.f.HashWithSeed(i, seed), fr.HashWithSeed(0, seed); got != want {
			return fmt.Errorf("HashWithSeed(%d,%d) on view off=%d: %#x, independent copy hashes to %#x", i, seed, h.off, got, want)
		}
		if got, want := h.f.Hash(i), h.f.HashWithSeed(i, 0); got != want {
			return fmt.Errorf("Hash != HashWithSeed(0)")
		}
	case "zero":
		h := w.pick(op.H)
		if h.off > 0 {
			w.viewOps++
		}
		if h.n > 1024 {
			bigZeroes++
		}
		h.f.Zero()
		for i := 0; i < h.n; i++ {
			h.st.rows[h.off+i] = w.zeroRow()
		}
	case "read":
		h := w.pick(op.H)
		if h.off > 0 {
			w.viewOps++
		}
		vals := h.f.Values()
		ifs := h.f.Interfaces()
		for c := 0; c < ncol; c++ {
			v := h.f.Value(c)
			if v.Len() != h.n || vals[c].Len() != h.n || reflect.ValueOf(ifs[c]).Len() != h.n || reflect.ValueOf(h.f.Interface(c)).Len() != h.n {
				return fmt.Errorf("Value/Interface(%d) length != %d", c, h.n)
			}
			sh := h.f.SliceHeader(c)
			if sh.Len != h.n || sh.Cap != h.cap {
				return fmt.Errorf("SliceHeader(%d) len/cap %d/%d, want %d/%d", c, sh.Len, sh.Cap, h.n, h.cap)
			}
			for i := 0; i < h.n; i++ {
				want := h.st.rows[h.off+i][c]
				if got := v.Index(i).Interface(); !eqVal(got, want) {
					return fmt.Errorf("Value(%d)[%d] = %v, model %v", c, i, fmtv(got), fmtv(want))
				}
				if got := vals[c].Index(i).Interface(); !eqVal(got, want) {
					return fmt.Errorf("Values()[%d][%d] = %v, model %v", c, i, fmtv(got), fmtv(want))
				}
				if got := reflect.ValueOf(ifs[c]).Index(i).Interface(); !eqVal(got, want) {
					return fmt.Errorf("Interfaces()[%d][%d] = %v, model %v", c, i, fmtv(got), fmtv(want))
				}
				if got := h.f.Index(c, i).Interface(); !eqVal(got, want) {
					return fmt.Errorf("Index(%d,%d) = %v, model %v", c, i, fmtv(got), fmtv(want))
				}
				if w.types[c].typ.Size() > 0 {
					p := h.f.UnsafeIndexPointer(c, i)
					if got := reflect.NewAt(w.types[c].typ, p).Elem().Interface(); !eqVal(got, want) {
						return fmt.Errorf("UnsafeIndexPointer(%d,%d) -> %v, model %v", c, i, fmtv(got), fmtv(want))
					}
					q := unsafe.Pointer(sh.Data + uintptr(i)*w.types[c].typ.Size())
					if p != q {
						return fmt.Errorf("SliceHeader(%d).Data + %d*size != UnsafeIndexPointer", c, i)
					}
				}
			}
		}
	case "encdec":
		// Encode column from view src, decode into view dst (same length), for codec columns.
		src, dst := w.pick(op.H), w.pick(op.H2)
		n := src.n
		if dst.n < n {
			n = dst.n
		}
		if n == 0 {
			return nil
		}
		si := op.A % (src.n - n + 1)
		di := op.B % (dst.n - n + 1)
		sv, dv := src.f.Slice(si, si+n), dst.f.Slice(di, di+n)
		did := false
		for c := 0; c < ncol; c++ {
			if !sv.HasCodec(c) {
				continue
			}
			did = true
			snap := make([]interface{}, n)
			for i := range snap {
				snap[i] = src.st.rows[src.off+si+i][c]
			}
			cd := newGobCoder()
			if err := sv.Encode(c, cd); err != nil {
				return fmt.Errorf("Encode: %v", err)
			}
			if err := dv.Decode(c, cd); err != nil {
				return fmt.Errorf("Decode: %v", err)
			}
			for i := range snap {
				dst.st.rows[dst.off+di+i][c] = snap[i]
			}
		}
		if did && (src.off+si > 0 || dst.off+di > 0) {
			w.viewOps++
		}
	case "sort":
		h := w.pick(op.H)
		if h.off > 0 {
			w.viewOps++
		}
		before := make([][]interface{}, h.n)
		copy(before, h.st.rows[h.off:h.off+h.n])
		sort.Sort(h.f)
		// read the view back through ground-truth memory, check order and permutation
		after := make([][]interface{}, h.n)
		for i := range after {
			row := make([]interface{}, ncol)
			for c := range row {
				row[c] = h.st.cols[c].Index(h.off + i).Interface()
			}
			after[i] = row
		}
		used := make([]bool, h.n)
	outer:
		for i := range after {
			for j := range before {
				if used[j] {
					continue
				}
				same := true
				for c := range after[i] {
					if !eqVal(after[i][c], before[j][c]) {
						same = false
						break
					}
				}
				if same {
					used[j] = true
					continue outer
				}
			}
			return fmt.Errorf("sort: row %d (%v) of the sorted view is not a row of the input (not a permutation)", i, after[i])
		}
		copy(h.st.rows[h.off:h.off+h.n], after)
		for i := 1; i < h.n; i++ {
			if w.modelLess(h, i, i-1) {
				return fmt.Errorf("sort: rows %d and %d out of key order: %v > %v", i-1, i, after[i-1], after[i])
			}
		}
	default:
		return fmt.Errorf("harness: unknown op %q", op.Kind)
	}
	return nil
}

// bigZeroes counts Zero operations on views of more than 1024 rows (cases run one at a time).
var bigZeroes int

// runCase executes a case; it returns a description of the first divergence.
func runCase(c Case) (err error, viewOps int, step int) {
	w := &world{c: c}
	for _, ci := range c.Cols {
		w.types = append(w.types, universe[ci%len(universe)])
	}
	for i, op := range c.Ops {
		if e := w.step(op); e != nil {
			return fmt.Errorf("step %d (%s): %v", i, op.Kind, e), w.viewOps, i
		}
		if e := w.checkAll(); e != nil {
			return fmt.Errorf("after step %d (%s h=%d h2=%d a=%d b=%d): %v", i, op.Kind, op.H, op.H2, op.A, op.B, e), w.viewOps, i
		}
	}
	return nil, w.viewOps, len(c.Ops)
}

func sigOf(c Case, step int) string {
	if step < len(c.Ops) {
		return "frame-op:" + c.Ops[step].Kind
	}
	return "frame-op:?"
}

const testName = "TestVerifC11FrameModel"

func TestVerifC11FrameModel(t *testing.T) {
	rec := vt.New("C11", "frame-model",
		"rapid-generated sequences (1..24) of public frame operations over 1..3 columns from a 20-type universe, compared after every step with a slice-of-rows model of the whole parent storage; non-trivial = at least one operation was applied to a view with offset > 0; distinct by hash of the whole case")
	docs, only := vt.Replays(testName)
	for _, d := range docs {
		var c Case
		if err := json.Unmarshal(d.Case, &c); err != nil {
			t.Fatalf("bad replay: %v", err)
		}
		err, vo, step := runCase(c)
		rec.Case(vo > 0, vt.Hash(string(d.Case)), "replay")
		if err != nil {
			rec.Violation(testName, sigOf(c, step), err.Error(), c)
			t.Errorf("replay: %v", err)
		}
	}
	if only || t.Failed() {
		return
	}
	defer rec.Commit(testName)
	rapid.Check(t, func(rt *rapid.T) {
		c := genCase(rt)
		bz := bigZeroes
		err, vo, step := runCase(c)
		b, _ := json.Marshal(c)
		classes := []string{}
		if bigZeroes > bz {
			classes = append(classes, "zero-of->1024-rows")
		}
		if len(c.Ops) > 0 && c.Ops[0].Kind == "bigvalues" {
			classes = append(classes, "frame-of->1000-rows")
		}
		if vo > 0 {
			classes = append(classes, "view-offset>0")
		}
		kinds := map[string]bool{}
		for _, op := range c.Ops {
			kinds[op.Kind] = true
		}
		for k := range kinds {
			classes = append(classes, "op:"+k)
		}
		sort.Strings(classes)
		rec.Case(vo > 0, vt.Hash(string(b)), classes...)
		if vo > 0 && rec.WantSample("view") {
			rec.Sample("view", c)
		}
		if err != nil {
			rec.Pending(sigOf(c, step), err.Error(), c)
			rt.Fatalf("%v", err)
		}
	})
}
