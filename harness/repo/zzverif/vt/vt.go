//go:build verif
// +build verif

// Package vt is the small toolkit shared by all verification tests: tier and
// seed access, case statistics (evaluations, classes, distinct non-trivial
// cases, samples), violation/replay recording. Statistics are written to the
// file named by $VERIF_STATS when Flush is called; the driver (/verif/vcheck)
// merges them into the evidence file.
package vt

import (
	"encoding/json"
	"fmt"
	"hash/fnv"
	"io/ioutil"
	"os"
	"path/filepath"
	"runtime/debug"
	"sort"
	"strconv"
	"strings"
	"sync"
)

// Tier returns "quick" or "thorough".
func Tier() string {
	if t := os.Getenv("VERIF_TIER"); t == "thorough" {
		return t
	}
	return "quick"
}

// Thorough tells whether the thorough tier is running.
func Thorough() bool { return Tier() == "thorough" }

func envInt(name string, def int) int {
	if s := os.Getenv(name); s != "" {
		if n, err := strconv.Atoi(s); err == nil {
			return n
		}
	}
	return def
}

// Seed returns VERIF_SEED (default 1).
func Seed() int { return envInt("VERIF_SEED", 1) }

// Shard returns this process's shard index in [0, NShard()).
func Shard() int { return envInt("VERIF_SHARD", 0) }

// NShard returns the number of shards the driver started.
func NShard() int {
	n := envInt("VERIF_NSHARD", 1)
	if n < 1 {
		n = 1
	}
	return n
}

// Mine tells whether the i'th item of a deterministic enumeration belongs to
// this shard.
func Mine(i int) bool { return i%NShard() == Shard() }

// Pick returns q in the quick tier and t in the thorough tier.
func Pick(q, t int) int {
	if Thorough() {
		return t
	}
	return q
}

// ReplayPath returns the replay file to execute, if the driver asked for one.
func ReplayPath() string { return os.Getenv("VERIF_REPLAY") }

// CorpusDir returns the directory holding committed regression replays for
// the property under test ("" if none).
func CorpusDir() string { return os.Getenv("VERIF_CORPUS") }

const maxHashes = 100000
const maxSamplesPerClass = 2
const maxSampleClasses = 12

// Violation is one reported violation.
type Violation struct {
	Signature string `json:"signature"`
	What      string `json:"what"`
	Replay    string `json:"replay"`
}

// Rec accumulates statistics for one test (section) of a property.
type Rec struct {
	mu          sync.Mutex
	Property    string            `json:"property"`
	Section     string            `json:"section"`
	Evaluations int               `json:"evaluations"`
	Classes     map[string]int    `json:"classes"`
	Hashes      []uint64          `json:"hashes"`
	HashCapped  bool              `json:"hash_capped"`
	Samples     []interface{}     `json:"samples"`
	Violations  []Violation       `json:"violations"`
	Known       map[string]string `json:"known"`    // signature -> what (canonical instance still failing)
	Excluded    map[string]int    `json:"excluded"` // signature -> number of generated cases excluded by construction
	Exhaustive  bool              `json:"exhaustive"`
	Rule        string            `json:"rule"`
	Notes       []string          `json:"notes"`
	Inconclusive int              `json:"inconclusive"`

	hashset      map[uint64]struct{}
	sampleCount  map[string]int
	lastFail     *pendingFail
	violationSig map[string]bool
}

type pendingFail struct {
	sig, what string
	replay    interface{}
}

var (
	allMu sync.Mutex
	all   []*Rec
)

// New creates a statistics section. rule states how cases are generated and
// what makes one non-trivial.
func New(property, section, rule string) *Rec {
	r := &Rec{
		Property: property, Section: section, Rule: rule,
		Classes: map[string]int{}, Known: map[string]string{}, Excluded: map[string]int{},
		hashset: map[uint64]struct{}{}, sampleCount: map[string]int{}, violationSig: map[string]bool{},
	}
	allMu.Lock()
	all = append(all, r)
	allMu.Unlock()
	return r
}

// Hash returns a 64-bit FNV-1a hash of the formatted arguments.
func Hash(parts ...interface{}) uint64 {
	h := fnv.New64a()
	for _, p := range parts {
		fmt.Fprintf(h, "%v\x00", p)
	}
	return h.Sum64()
}

// Case records one executed case. classes label it for the histogram; key
// identifies it for distinctness (only used when nontrivial).
func (r *Rec) Case(nontrivial bool, key uint64, classes ...string) {
	r.mu.Lock()
	defer r.mu.Unlock()
	r.Evaluations++
	for _, c := range classes {
		r.Classes[c]++
	}
	if nontrivial {
		r.Classes["nontrivial"]++
		if _, ok := r.hashset[key]; !ok {
			if len(r.hashset) < maxHashes {
				r.hashset[key] = struct{}{}
			} else {
				r.HashCapped = true
			}
		}
	}
}

// Count adds n to a class counter without counting an evaluation.
func (r *Rec) Count(class string, n int) {
	r.mu.Lock()
	r.Classes[class] += n
	r.mu.Unlock()
}

// WantSample tells whether another sample of this class would be kept.
func (r *Rec) WantSample(class string) bool {
	r.mu.Lock()
	defer r.mu.Unlock()
	if _, ok := r.sampleCount[class]; !ok && len(r.sampleCount) >= maxSampleClasses {
		return false
	}
	return r.sampleCount[class] < maxSamplesPerClass
}

// Sample keeps v (JSON-encodable) as a sample of class, up to a small cap.
func (r *Rec) Sample(class string, v interface{}) {
	r.mu.Lock()
	defer r.mu.Unlock()
	if _, ok := r.sampleCount[class]; !ok && len(r.sampleCount) >= maxSampleClasses {
		return
	}
	if r.sampleCount[class] >= maxSamplesPerClass {
		return
	}
	r.sampleCount[class]++
	r.Samples = append(r.Samples, map[string]interface{}{"class": class, "case": v})
}

// Exclude counts a generated case that was excluded by construction because it
// falls in the class of a recorded known finding.
func (r *Rec) Exclude(signature string) {
	r.mu.Lock()
	r.Excluded[signature]++
	r.mu.Unlock()
}

// Note attaches a free-text note to the evidence.
func (r *Rec) Note(format string, args ...interface{}) {
	r.mu.Lock()
	r.Notes = append(r.Notes, fmt.Sprintf(format, args...))
	r.mu.Unlock()
}

// Inconcl counts an inconclusive case (budget hit; never a violation).
func (r *Rec) Inconcl() {
	r.mu.Lock()
	r.Inconclusive++
	r.mu.Unlock()
}

// Pending remembers a failing case; the last one remembered before Commit is
// the one reported (rapid re-runs the minimal failing case last).
func (r *Rec) Pending(signature, what string, replay interface{}) {
	r.mu.Lock()
	r.lastFail = &pendingFail{signature, what, replay}
	r.mu.Unlock()
}

// Commit turns the pending failure (if any) into a reported violation.
func (r *Rec) Commit(test string) {
	r.mu.Lock()
	p := r.lastFail
	r.lastFail = nil
	r.mu.Unlock()
	if p != nil {
		r.Violation(test, p.sig, p.what, p.replay)
	}
}

// Violation reports a violation immediately. replay must be JSON-encodable; it
// is stored with the test name so that `vcheck <ID> --replay` can re-run it.
func (r *Rec) Violation(test, signature, what string, replay interface{}) {
	path := ""
	dir := os.Getenv("VERIF_OUT")
	if dir != "" {
		_ = os.MkdirAll(dir, 0777)
		doc := map[string]interface{}{
			"property": r.Property, "test": test, "signature": signature, "what": what, "case": replay,
		}
		b, err := json.MarshalIndent(doc, "", " ")
		if err != nil {
			b, _ = json.Marshal(map[string]interface{}{"property": r.Property, "test": test, "signature": signature, "what": what, "case": fmt.Sprintf("%+v", replay)})
		}
		path = filepath.Join(dir, fmt.Sprintf("%s-%016x.json", r.Property, Hash(test, signature, string(b))))
		_ = ioutil.WriteFile(path, b, 0666)
	}
	r.mu.Lock()
	defer r.mu.Unlock()
	if len(what) > 2000 {
		what = what[:2000] + "..."
	}
	if !r.violationSig[signature] || len(r.Violations) < 20 {
		r.violationSig[signature] = true
		r.Violations = append(r.Violations, Violation{signature, what, path})
	}
}

// KnownStillFails records that the canonical instance of a known finding was
// executed and still fails.
func (r *Rec) KnownStillFails(signature, what string) {
	r.mu.Lock()
	r.Known[signature] = what
	r.mu.Unlock()
}

// Flush writes all sections to $VERIF_STATS.
func Flush() {
	path := os.Getenv("VERIF_STATS")
	if path == "" {
		return
	}
	allMu.Lock()
	defer allMu.Unlock()
	for _, r := range all {
		r.mu.Lock()
		r.Hashes = r.Hashes[:0]
		for h := range r.hashset {
			r.Hashes = append(r.Hashes, h)
		}
		sort.Slice(r.Hashes, func(i, j int) bool { return r.Hashes[i] < r.Hashes[j] })
		r.mu.Unlock()
	}
	b, err := json.Marshal(all)
	if err != nil {
		// samples may hold something unencodable: drop them
		for _, r := range all {
			r.Samples = []interface{}{fmt.Sprintf("%d samples not JSON-encodable: %v", len(r.Samples), err)}
		}
		b, _ = json.Marshal(all)
	}
	tmp := path + ".tmp"
	if err := ioutil.WriteFile(tmp, b, 0666); err == nil {
		_ = os.Rename(tmp, path)
	}
}

// ReplayDoc is the on-disk form of a replay.
type ReplayDoc struct {
	Property  string          `json:"property"`
	Test      string          `json:"test"`
	Signature string          `json:"signature"`
	What      string          `json:"what"`
	Case      json.RawMessage `json:"case"`
}

// LoadReplay reads a replay document.
func LoadReplay(path string) (*ReplayDoc, error) {
	b, err := ioutil.ReadFile(path)
	if err != nil {
		return nil, err
	}
	var d ReplayDoc
	if err := json.Unmarshal(b, &d); err != nil {
		return nil, err
	}
	return &d, nil
}

// Replays returns the replay documents to execute for test: the one named by
// $VERIF_REPLAY (if its test matches) and every file of the corpus directory
// whose test matches. only reports whether a specific replay was requested, in
// which case the caller should skip its generated search.
func Replays(test string) (docs []*ReplayDoc, only bool) {
	if p := ReplayPath(); p != "" {
		only = true
		if d, err := LoadReplay(p); err == nil && d.Test == test {
			docs = append(docs, d)
		}
		return
	}
	if dir := CorpusDir(); dir != "" && Shard() == 0 {
		names, _ := filepath.Glob(filepath.Join(dir, "*.json"))
		sort.Strings(names)
		for _, n := range names {
			if d, err := LoadReplay(n); err == nil && d.Test == test {
				docs = append(docs, d)
			}
		}
	}
	return
}

// PanicSig builds a short signature from a recovered panic value and stack:
// the first frame inside github.com/grailbio/bigslice that is not harness code.
func PanicSig(v interface{}) (sig string, stack string) {
	stack = string(debug.Stack())
	frame := ""
	for _, line := range strings.Split(stack, "\n") {
		line = strings.TrimSpace(line)
		if strings.HasPrefix(line, "github.com/grailbio/bigslice") && !strings.Contains(line, "zzverif") && !strings.Contains(line, "Verif") && !strings.Contains(line, "verif") {
			if i := strings.LastIndex(line, "("); i > 0 {
				line = line[:i]
			}
			frame = line
			break
		}
	}
	msg := fmt.Sprint(v)
	if len(msg) > 80 {
		msg = msg[:80]
	}
	return "panic@" + frame, msg + "\n" + stack
}
