//go:build verif
// +build verif

// Package c06 checks property C06: user errors and panics surface as errors
// from Run, on every executor. Every cell runs in a disposable child process
// so that a crash of the driver process is observed and attributed.
package c06

import (
	"bufio"
	"context"
	"encoding/json"
	"fmt"
	"io/ioutil"
	"os"
	osexec "os/exec"
	"path/filepath"
	"runtime"
	"strings"
	"syscall"
	"testing"
	"time"

	"github.com/grailbio/bigslice/zzverif/progen"
	"github.com/grailbio/bigslice/zzverif/runner"
	"github.com/grailbio/bigslice/zzverif/vgen"
	"github.com/grailbio/bigslice/zzverif/vt"
	"pgregory.net/rapid"
)

func TestMain(m *testing.M) {
	code := m.Run()
	vt.Flush()
	os.Exit(code)
}

// Cell is one failure-injection scenario.
type Cell struct {
	Site       string        `json:"site"` // reader writer map filter flatmap fold reduce-intra reduce-cross partitioner scan
	Mode       string        `json:"mode"` // error temp panic badpart
	Persistent bool          `json:"persistent"`
	Pos        string        `json:"pos"` // first mid last eof
	Cfg        runner.Config `json:"cfg"`
	Rows       int           `json:"rows"`   // rows per shard
	Shards     int           `json:"shards"` // producer shards
	At         int           `json:"at"`     // explicit position (random cells); -1: derive from Pos
}

func (c Cell) String() string {
	p := "one-shot"
	if c.Persistent {
		p = "persistent"
	}
	return fmt.Sprintf("%s/%s/%s/%s/%s", c.Site, c.Mode, p, c.Pos, c.Cfg.String())
}

// Outcome is what the child observed.
type Outcome struct {
	RunErr    string `json:"run_err"`
	ScanErr   string `json:"scan_err"`
	RowsOK    bool   `json:"rows_ok"`
	RowsDiff  string `json:"rows_diff"`
	Fired     int    `json:"fired"`
	Hang      bool   `json:"hang"`
	SanityErr string `json:"sanity_err"`
	Millis    int64  `json:"millis"`
	Stacks    string `json:"stacks,omitempty"`
}

// program builds the template program of a cell; it returns the spec and the
// id of the node carrying the injected failure.
func program(c Cell) (*progen.Spec, int) {
	rows, shards := c.Rows, c.Shards
	at := c.At
	fail := &progen.Fail{Mode: c.Mode, Persistent: c.Persistent}
	perRowSite := false
	switch c.Site {
	case "reader", "writer", "scan", "reader-reduce", "writer-reduce":
		// position is the row position within a shard
		switch c.Pos {
		case "first":
			at = 0
		case "mid":
			at = 128
		case "last":
			at = rows - 1
		case "eof":
			fail.AtEOF = true
		}
	default:
		perRowSite = true
		switch c.Pos {
		case "first":
			at = 0
		case "mid":
			at = 128
		case "last":
			at = rows - 1 // the call with this ordinal; all shards together make at least `rows` calls
		}
	}
	if c.At >= 0 {
		at = c.At
	}
	fail.At = at
	_ = perRowSite
	cols := []progen.Col{progen.TInt, progen.TInt}
	// keys: reduce-intra -> few keys repeated inside every shard; reduce-cross -> every key once per shard
	sel := func(shard, i int) []int {
		switch c.Site {
		case "reduce-cross":
			return []int{i, (shard*7 + i) % 23}
		case "reader-reduce", "writer-reduce":
			// many distinct keys: the producer's combine buffers are flushed while the shard is still being read
			return []int{i % 50, (shard*7 + i) % 23}
		default:
			return []int{i % 7, (shard*7 + i) % 23}
		}
	}
	src := progen.Node{Op: "readerfunc", Cols: cols, NShard: shards, ShardRows: make([][][]int, shards)}
	for s := 0; s < shards; s++ {
		for i := 0; i < rows; i++ {
			src.ShardRows[s] = append(src.ShardRows[s], sel(s, i))
		}
	}
	spec := &progen.Spec{}
	add := func(n progen.Node) int {
		spec.Nodes = append(spec.Nodes, n)
		return len(spec.Nodes) - 1
	}
	site := -1
	switch c.Site {
	case "reader":
		src.Fn = &progen.Fn{Fail: fail}
		site = add(src)
		add(progen.Node{Op: "map", In: []int{site}, Fn: &progen.Fn{Exprs: []progen.Expr{{K: "col", I: 0}, {K: "col", I: 1}}}})
	case "writer":
		s := add(src)
		site = add(progen.Node{Op: "writerfunc", In: []int{s}, Fn: &progen.Fn{Fail: fail}})
	case "reader-reduce":
		// the failing reader feeds a Reduce: its task combines rows while it reads them
		src.Fn = &progen.Fn{Fail: fail}
		site = add(src)
		add(progen.Node{Op: "reduce", In: []int{site}, Fn: &progen.Fn{}})
	case "writer-reduce":
		s := add(src)
		site = add(progen.Node{Op: "writerfunc", In: []int{s}, Fn: &progen.Fn{Fail: fail}})
		add(progen.Node{Op: "reduce", In: []int{site}, Fn: &progen.Fn{}})
	case "map":
		s := add(src)
		site = add(progen.Node{Op: "map", In: []int{s}, Fn: &progen.Fn{Exprs: []progen.Expr{{K: "col", I: 0}, {K: "hash", T: progen.TInt, M: 50}}, Fail: fail}})
	case "filter":
		s := add(src)
		site = add(progen.Node{Op: "filter", In: []int{s}, Fn: &progen.Fn{M: 10, T: 9, Fail: fail}})
	case "flatmap":
		s := add(src)
		site = add(progen.Node{Op: "flatmap", In: []int{s}, Fn: &progen.Fn{M: 3, Exprs: []progen.Expr{{K: "col", I: 0}, {K: "hash", T: progen.TInt, M: 50}}, Fail: fail}})
	case "fold":
		s := add(src)
		site = add(progen.Node{Op: "fold", In: []int{s}, Fn: &progen.Fn{Kind: "sumhash", Fail: fail}})
	case "reduce-intra", "reduce-cross":
		s := add(src)
		site = add(progen.Node{Op: "reduce", In: []int{s}, Fn: &progen.Fn{Fail: fail}})
	case "partitioner":
		s := add(src)
		site = add(progen.Node{Op: "repartition", In: []int{s}, Fn: &progen.Fn{Kind: "hash", Fail: fail}})
	case "scan":
		s := add(src)
		site = add(progen.Node{Op: "scan", In: []int{s}, Fn: &progen.Fn{Fail: fail}})
	default:
		panic("unknown site " + c.Site)
	}
	if err := progen.Annotate(spec); err != nil {
		panic(err)
	}
	return spec, site
}

func sanityProgram() *progen.Spec {
	// Exclusive tasks need every slot of the local executor / every proc of a machine: the follow-up
	// run cannot complete if the failed run leaked any of them
	src := progen.Node{Op: "readerfunc", Cols: []progen.Col{progen.TInt, progen.TInt}, NShard: 2, Exclusive: true,
		ShardRows: [][][]int{{{1, 1}, {1, 2}, {2, 3}}, {{1, 4}, {2, 5}, {3, 6}}}, Script: []vgen.Chunk{{N: 2}}}
	spec := &progen.Spec{Nodes: []progen.Node{
		src,
		{Op: "map", In: []int{0}, Fn: &progen.Fn{Exprs: []progen.Expr{{K: "col", I: 0}, {K: "col", I: 1}}}, Exclusive: true},
		{Op: "reduce", In: []int{1}, Fn: &progen.Fn{}},
	}}
	if err := progen.Annotate(spec); err != nil {
		panic(err)
	}
	return spec
}

const cellTimeout = 120 * time.Second

// runCell executes a cell in this process (child side).
func runCell(c Cell) Outcome {
	var out Outcome
	start := time.Now()
	spec, site := program(c)
	spec.RunID = runner.NewRunID()
	ref, err := progen.Eval(spec, nil)
	if err != nil {
		out.RunErr = "harness: " + err.Error()
		return out
	}
	sess := runner.Start(c.Cfg)
	ctx := context.Background()
	finished := runner.WithTimeout(cellTimeout, func() {
		res, e := sess.Run(ctx, spec)
		if e != nil {
			out.RunErr = e.Error()
			return
		}
		if len(spec.Nodes[spec.Root()].Schema.Cols) == 0 {
			// a unit slice (Scan): there is nothing to scan
			out.RowsOK = true
			return
		}
		rows, e := runner.Scan(ctx, res, spec.Nodes[spec.Root()].Schema)
		if e != nil {
			out.ScanErr = e.Error()
			return
		}
		if d := progen.CheckRows(ref.Stages[spec.Root()], rows); d != nil {
			out.RowsDiff = d.Error()
		} else {
			out.RowsOK = true
		}
	})
	out.Fired = progen.EnvOf(spec.RunID).Fired(site)
	if !finished {
		out.Hang = true
		buf := make([]byte, 8<<20)
		all := string(buf[:runtime.Stack(buf, true)])
		var keep []string
		for _, g := range strings.Split(all, "\n\n") {
			if strings.Contains(g, "grailbio/bigslice/exec.") || strings.Contains(g, "grailbio/bigslice.") {
				if len(g) > 2500 {
					g = g[:2500] + "..."
				}
				keep = append(keep, g)
			}
		}
		out.Stacks = strings.Join(keep, "\n\n")
		out.Millis = time.Since(start).Milliseconds()
		return out
	}
	// the session must remain usable
	san := sanityProgram()
	san.RunID = runner.NewRunID()
	sref, _ := progen.Eval(san, nil)
	ok := runner.WithTimeout(cellTimeout, func() {
		res, e := sess.Run(ctx, san)
		if e != nil {
			out.SanityErr = "run: " + e.Error()
			return
		}
		rows, e := runner.Scan(ctx, res, san.Nodes[san.Root()].Schema)
		if e != nil {
			out.SanityErr = "scan: " + e.Error()
			return
		}
		if d := progen.CheckRows(sref.Stages[san.Root()], rows); d != nil {
			out.SanityErr = "rows: " + d.Error()
		}
	})
	if !ok {
		out.SanityErr = "a later run in the same session did not finish"
	}
	out.Millis = time.Since(start).Milliseconds()
	return out
}

// TestVerifC06Child is the child side: it runs the cells listed in the file
// named by VERIF_C06_CELLS and prints START/DONE lines.
func TestVerifC06Child(t *testing.T) {
	p := os.Getenv("VERIF_C06_CELLS")
	if p == "" {
		t.Skip()
	}
	b, err := ioutil.ReadFile(p)
	if err != nil {
		t.Fatal(err)
	}
	var cells []Cell
	if err := json.Unmarshal(b, &cells); err != nil {
		t.Fatal(err)
	}
	w := bufio.NewWriter(os.Stdout)
	for i, c := range cells {
		fmt.Fprintf(w, "\nVERIF-START %d\n", i)
		w.Flush()
		out := runCell(c)
		ob, _ := json.Marshal(out)
		fmt.Fprintf(w, "\nVERIF-DONE %d %s\n", i, ob)
		w.Flush()
		if out.Hang {
			// the session is wedged; let the parent start a fresh process
			os.Exit(3)
		}
	}
	// do not shut sessions down: exit is enough for a disposable process
	w.Flush()
	os.Exit(0)
}

// judge applies the oracle to the outcome of a cell. crashed: the child died
// while this cell was in flight; log is the tail of its output.
func judge(c Cell, out *Outcome, crashed bool, log string) (violation string, sig string, reached bool) {
	if crashed {
		return fmt.Sprintf("the driver process died while running the cell (a user %s in %s must surface as an error from Run)\n%s", c.Mode, c.Site, tail(log, 6000)), "driver-crash:" + c.Site + ":" + c.Cfg.Exec, true
	}
	if out.Hang {
		return fmt.Sprintf("Run did not return within %v\n%s", cellTimeout, head(out.Stacks, 30000)), "hang:" + c.Site + ":" + c.Cfg.Exec + mc(c), true
	}
	if strings.HasPrefix(out.RunErr, "harness:") {
		return out.RunErr, "harness", true
	}
	reached = out.Fired > 0
	if !reached {
		// the injection point was never reached: the run must simply be correct
		if out.RunErr != "" || out.ScanErr != "" || !out.RowsOK {
			return fmt.Sprintf("failure never injected, yet run=%q scan=%q rows=%q", out.RunErr, out.ScanErr, out.RowsDiff), "unreached-but-failed:" + c.Site, false
		}
		return "", "", false
	}
	errText := out.RunErr + out.ScanErr
	failed := errText != ""
	if limit := 30 * c.Rows * c.Shards; out.Fired > 500 && out.Fired > limit {
		return fmt.Sprintf("the failing function was invoked again %d times: retries are not bounded", out.Fired), "unbounded-retries:" + c.Site, true
	}
	if out.RowsDiff != "" {
		return "run reported success with rows that differ from the reference: " + out.RowsDiff, "wrong-rows:" + c.Site, true
	}
	if c.Persistent {
		if !failed {
			return fmt.Sprintf("a persistent %s in %s fired %d times, yet Run and the scan succeeded", c.Mode, c.Site, out.Fired), "error-swallowed:" + c.Site + ":" + c.Mode + ":" + c.Cfg.Exec, true
		}
		// A persistently "temporary" failure ends as "lost too many times"; the statement asks for the
		// user's message for (plain) reader and writer errors and for every panic.
		needMsg := c.Mode == "panic" || ((c.Site == "reader" || c.Site == "writer" || c.Site == "reader-reduce" || c.Site == "writer-reduce") && c.Mode == "error")
		if needMsg && !strings.Contains(errText, progen.InjectedMsg) {
			return fmt.Sprintf("the error returned for a persistent %s in %s does not carry the user's message: %s", c.Mode, c.Site, tail(errText, 1500)), "message-lost:" + c.Site + ":" + c.Mode + ":" + c.Cfg.Exec + mc(c), true
		}
	} else {
		if (c.Mode == "temp" || c.Mode == "retriable") && failed {
			return fmt.Sprintf("a temporary error in %s that went away on retry failed the run: %s", c.Site, tail(errText, 1500)), "transient-failed-run:" + c.Site + ":" + c.Cfg.Exec, true
		}
	}
	if out.SanityErr != "" {
		return "the session was not usable afterwards: " + out.SanityErr, "session-unusable:" + c.Site + ":" + c.Cfg.Exec, true
	}
	return "", "", true
}

func mc(c Cell) string {
	if c.Cfg.MachineCombiners {
		return ":mc"
	}
	return ""
}

func head(s string, n int) string {
	if len(s) > n {
		return s[:n] + "..."
	}
	return s
}

func tail(s string, n int) string {
	if len(s) > n {
		return "..." + s[len(s)-n:]
	}
	return s
}

// runCells runs cells in child processes and returns the outcomes.
func runCells(cells []Cell, each func(i int, c Cell, out *Outcome, crashed bool, log string)) error {
	dir := os.Getenv("VERIF_SCRATCH")
	if dir == "" {
		dir = os.TempDir()
	}
	next := 0
	for next < len(cells) {
		batch := cells[next:]
		f := filepath.Join(dir, fmt.Sprintf("c06-cells-%d.json", next))
		b, _ := json.Marshal(batch)
		if err := ioutil.WriteFile(f, b, 0666); err != nil {
			return err
		}
		cmd := osexec.Command(os.Args[0], "-test.run", "^TestVerifC06Child$", "-test.timeout", "3600s")
		cmd.Env = append(os.Environ(), "VERIF_C06_CELLS="+f, "VERIF_STATS=")
		cmd.SysProcAttr = &syscall.SysProcAttr{Setpgid: true}
		logf := filepath.Join(dir, fmt.Sprintf("c06-child-%d.log", next))
		lf, err := os.Create(logf)
		if err != nil {
			return err
		}
		cmd.Stdout = lf
		cmd.Stderr = lf
		if err := cmd.Start(); err != nil {
			return err
		}
		done := make(chan error, 1)
		go func() { done <- cmd.Wait() }()
		select {
		case <-done:
		case <-time.After(time.Duration(len(batch))*cellTimeout*3 + 5*time.Minute):
			syscall.Kill(-cmd.Process.Pid, syscall.SIGKILL)
			<-done
		}
		syscall.Kill(-cmd.Process.Pid, syscall.SIGKILL)
		lf.Close()
		lb, _ := ioutil.ReadFile(logf)
		log := string(lb)
		// parse
		started, finished := -1, -1
		outs := map[int]*Outcome{}
		sc := bufio.NewScanner(strings.NewReader(log))
		sc.Buffer(make([]byte, 1<<20), 1<<28)
		for sc.Scan() {
			line := sc.Text()
			var i int
			if n, _ := fmt.Sscanf(line, "VERIF-START %d", &i); n == 1 {
				started = i
			}
			if strings.HasPrefix(line, "VERIF-DONE ") {
				rest := strings.TrimPrefix(line, "VERIF-DONE ")
				sp := strings.IndexByte(rest, ' ')
				if sp > 0 {
					fmt.Sscanf(rest[:sp], "%d", &i)
					var o Outcome
					if json.Unmarshal([]byte(rest[sp+1:]), &o) == nil {
						outs[i] = &o
						finished = i
					}
				}
			}
		}
		for i := 0; i <= finished; i++ {
			if o := outs[i]; o != nil {
				each(next+i, batch[i], o, false, "")
			}
		}
		if finished == len(batch)-1 {
			return nil
		}
		if started > finished {
			// died in flight
			each(next+started, batch[started], &Outcome{}, true, log)
			next += started + 1
			continue
		}
		if finished >= 0 && outs[finished].Hang {
			next += finished + 1
			continue
		}
		return fmt.Errorf("child exited without progress (started=%d finished=%d):\n%s", started, finished, tail(log, 3000))
	}
	return nil
}

var configs = []runner.Config{
	{Exec: "local", Parallelism: 4},
	{Exec: "bigmachine", Parallelism: 4, Machineprocs: 2},
	{Exec: "bigmachine", Parallelism: 4, Machineprocs: 2, MachineCombiners: true},
}

func allCells() []Cell {
	type sm struct {
		site  string
		modes []string
		pos   []string
	}
	sites := []sm{
		{"reader", []string{"error", "temp", "retriable", "panic"}, []string{"first", "mid", "last", "eof"}},
		{"writer", []string{"error", "temp", "retriable", "panic"}, []string{"first", "mid", "last", "eof"}},
		{"scan", []string{"error", "temp", "retriable", "panic"}, []string{"first", "mid", "last", "eof"}},
		{"reader-reduce", []string{"error", "temp", "retriable", "panic"}, []string{"first", "mid", "last", "eof"}},
		{"writer-reduce", []string{"error", "temp", "retriable", "panic"}, []string{"first", "mid", "last", "eof"}},
		{"map", []string{"panic"}, []string{"first", "mid", "last"}},
		{"filter", []string{"panic"}, []string{"first", "mid", "last"}},
		{"flatmap", []string{"panic"}, []string{"first", "mid", "last"}},
		{"fold", []string{"panic"}, []string{"first", "mid", "last"}},
		{"reduce-intra", []string{"panic"}, []string{"first", "mid", "last"}},
		{"reduce-cross", []string{"panic"}, []string{"first", "mid", "last"}},
		{"partitioner", []string{"panic", "badpart"}, []string{"first", "mid", "last"}},
	}
	var cells []Cell
	for _, s := range sites {
		for _, m := range s.modes {
			for _, p := range s.pos {
				for _, pers := range []bool{true, false} {
					for _, cfg := range configs {
						cells = append(cells, Cell{Site: s.site, Mode: m, Persistent: pers, Pos: p, Cfg: cfg, Rows: 140, Shards: 3, At: -1})
					}
				}
			}
		}
	}
	return cells
}

const tMatrix = "TestVerifC06Matrix"

func report(t *testing.T, rec *vt.Rec, test string, seen map[string]bool) func(i int, c Cell, out *Outcome, crashed bool, log string) {
	return func(i int, c Cell, out *Outcome, crashed bool, log string) {
		v, sig, reached := judge(c, out, crashed, log)
		classes := []string{"site:" + c.Site, "mode:" + c.Mode, "exec:" + c.Cfg.Exec + mc(c)}
		// Known finding (known_findings.json, machine-combiner-retry-double-count): in a session with
		// machine combiners a task that fails after it has combined part of its shard into the
		// machine-wide buffer is re-run and its rows are combined twice. Exactly that class - one-shot
		// temporary failure of a task feeding a machine combiner, reported as success with other rows -
		// is not reported again; the canonical cell is reported as KNOWN-FINDING while it still fails.
		if v != "" && strings.HasPrefix(sig, "wrong-rows:") && c.Cfg.MachineCombiners && !c.Persistent &&
			(c.Site == "reader-reduce" || c.Site == "writer-reduce") && (c.Mode == "temp" || c.Mode == "retriable") {
			rec.Exclude("machine-combiner-retry-double-count")
			if c.Site == "reader-reduce" && c.Mode == "temp" && c.Pos == "last" {
				rec.KnownStillFails("machine-combiner-retry-double-count", tail(v, 300))
			}
			v = ""
		}
		if !reached {
			classes = append(classes, "unreached")
		}
		rec.Case(reached, vt.Hash(c.String(), c.Rows, c.Shards, c.At), classes...)
		if reached && rec.WantSample(c.Site) {
			rec.Sample(c.Site, map[string]interface{}{"cell": c.String(), "run_err": tail(out.RunErr, 200), "fired": out.Fired, "ms": out.Millis})
		}
		if v != "" {
			if !seen[sig] {
				seen[sig] = true
				rec.Violation(test, sig, c.String()+": "+v, c)
			}
			t.Errorf("%s: [%s] %s", c.String(), sig, tail(v, 400))
		}
	}
}

func TestVerifC06Matrix(t *testing.T) {
	if os.Getenv("VERIF_C06_CELLS") != "" {
		t.Skip()
	}
	rec := vt.New("C06", "failure-matrix",
		"complete enumeration of the cross product call site {reader, writer, scan callback, reader and writer feeding a Reduce over many keys (the failing task has combined part of its shard already), map, filter, flatmap, fold, reduce combiner with keys repeated inside a shard, reduce combiner with keys shared only across shards, partitioner} x applicable failure modes {error, temporary error (severity Temporary and severity Retriable), panic, out-of-range partition} x {persistent, one-shot} x position {first row, row 128, last row, end-of-stream} x executor {local, bigmachine test system, bigmachine with machine combiners}; each cell runs in a disposable child process; oracle: persistent failure => non-nil error from Run/scan carrying the injected message for reader/writer errors and every panic, no hang (120 s), bounded re-invocation, driver process survives, never success with wrong rows; one-shot temporary failure => success with reference rows; a later run in the same session (of Exclusive tasks, which need every execution slot, so that a slot leaked by the failed run wedges it) is correct; non-trivial = the injection fired; distinct by cell")
	docs, only := vt.Replays(tMatrix)
	seen := map[string]bool{}
	if len(docs) > 0 {
		var cells []Cell
		for _, d := range docs {
			var c Cell
			if err := json.Unmarshal(d.Case, &c); err != nil {
				t.Fatal(err)
			}
			cells = append(cells, c)
		}
		if err := runCells(cells, report(t, rec, tMatrix, seen)); err != nil {
			t.Fatalf("harness: %v", err)
		}
	}
	if only || t.Failed() {
		return
	}
	var mine []Cell
	for i, c := range allCells() {
		if vt.Mine(i) {
			mine = append(mine, c)
		}
	}
	if err := runCells(mine, report(t, rec, tMatrix, seen)); err != nil {
		t.Fatalf("harness: %v", err)
	}
	rec.Exhaustive = true
}

const tRandom = "TestVerifC06Random"

func TestVerifC06Random(t *testing.T) {
	if os.Getenv("VERIF_C06_CELLS") != "" {
		t.Skip()
	}
	rec := vt.New("C06", "failure-random",
		"rapid: cells with arbitrary failure positions (0..3*rows), 1..5 producer shards, 1..300 rows per shard and internal vector sizes {1,8,128}; same oracle as failure-matrix; batches of generated cells run in child processes; non-trivial = the injection fired; distinct by cell")
	seen := map[string]bool{}
	docs, only := vt.Replays(tRandom)
	if len(docs) > 0 {
		var cells []Cell
		for _, d := range docs {
			var c Cell
			if err := json.Unmarshal(d.Case, &c); err != nil {
				t.Fatal(err)
			}
			cells = append(cells, c)
		}
		if err := runCells(cells, report(t, rec, tRandom, seen)); err != nil {
			t.Fatalf("harness: %v", err)
		}
	}
	if only || t.Failed() {
		return
	}
	sites := allCells()
	rapid.Check(t, func(rt *rapid.T) {
		var cells []Cell
		for k := 0; k < 12; k++ {
			c := rapid.SampledFrom(sites).Draw(rt, "cell")
			c.Rows = rapid.SampledFrom([]int{1, 2, 127, 128, 129, 300}).Draw(rt, "rows")
			c.Shards = rapid.IntRange(1, 5).Draw(rt, "shards")
			c.At = rapid.IntRange(0, 3*c.Rows).Draw(rt, "at")
			c.Pos = "at"
			c.Cfg.Chunk = rapid.SampledFrom([]int{0, 8, 1}).Draw(rt, "chunk")
			cells = append(cells, c)
		}
		failed := false
		rep := report(t, rec, tRandom, seen)
		err := runCells(cells, func(i int, c Cell, out *Outcome, crashed bool, log string) {
			before := len(seen)
			rep(i, c, out, crashed, log)
			if v, _, _ := judge(c, out, crashed, log); v != "" {
				failed = true
			}
			_ = before
		})
		if err != nil {
			rt.Fatalf("harness: %v", err)
		}
		if failed {
			rt.Fatalf("a cell violated the property")
		}
	})
}
