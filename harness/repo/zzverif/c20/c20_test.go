//go:build verif
// +build verif

// Package c20 checks property C20: user metrics are merged additively and
// survive transport unchanged.
package c20

import (
	"bytes"
	"context"
	"encoding/gob"
	"encoding/json"
	"fmt"
	"os"
	"sync"
	"testing"
	"time"

	"github.com/grailbio/bigslice/metrics"
	"github.com/grailbio/bigslice/zzverif/progen"
	"github.com/grailbio/bigslice/zzverif/runner"
	"github.com/grailbio/bigslice/zzverif/vt"
	"pgregory.net/rapid"
)

func TestMain(m *testing.M) {
	code := m.Run()
	vt.Flush()
	os.Exit(code)
}

// All counters are registered at init (documented precondition): the two of
// progen plus these.
var counters = []metrics.Counter{progen.UserCounter, progen.UserCounter2, metrics.NewCounter(), metrics.NewCounter(), metrics.NewCounter()}

// Op is one step of a metrics history.
type Op struct {
	K string `json:"k"` // incr | par | merge | reset | resetnil | gob | gobstruct
	A int    `json:"a"` // scope selector
	B int    `json:"b"` // second scope selector
	C int    `json:"c"` // counter selector
	N int    `json:"n"` // amount
}

type lawCase struct {
	Ops []Op `json:"ops"`
	// Observe: how scopes are read. Counter.Value creates the counter's instance in the scope it
	// reads, so reading is not neutral: 0 reads every scope directly after every step, 1 reads a gob
	// copy of every scope after every step (the scopes themselves are left untouched), 2 reads
	// directly, but only at the end of the history.
	Observe int `json:"observe"`
}

type envelope struct {
	Scope metrics.Scope
	Tag   string
}

func runLaws(c lawCase) (err error) {
	defer func() {
		if r := recover(); r != nil {
			_, stack := vt.PanicSig(r)
			err = fmt.Errorf("panic: %v\n%s", r, stack)
		}
	}()
	const nscope = 4
	scopes := make([]*metrics.Scope, nscope)
	model := make([][]int64, nscope)
	for i := range scopes {
		scopes[i] = new(metrics.Scope)
		model[i] = make([]int64, len(counters))
	}
	check := func(step int, op Op) error {
		if c.Observe == 2 && step != len(c.Ops)-1 {
			return nil
		}
		for i := range scopes {
			read := scopes[i]
			if c.Observe == 1 {
				var buf bytes.Buffer
				if e := gob.NewEncoder(&buf).Encode(scopes[i]); e != nil {
					return fmt.Errorf("gob encode: %v", e)
				}
				read = new(metrics.Scope)
				if e := gob.NewDecoder(&buf).Decode(read); e != nil {
					return fmt.Errorf("gob decode: %v", e)
				}
			}
			for ci, ctr := range counters {
				if got := ctr.Value(read); got != model[i][ci] {
					return fmt.Errorf("after step %d (%+v): counter %d of scope %d reads %d, model %d", step, op, ci, i, got, model[i][ci])
				}
			}
		}
		return nil
	}
	for step, op := range c.Ops {
		a, b, ci := op.A%nscope, op.B%nscope, op.C%len(counters)
		switch op.K {
		case "incr":
			counters[ci].Incr(scopes[a], int64(op.N))
			model[a][ci] += int64(op.N)
		case "par":
			var wg sync.WaitGroup
			for g := 0; g < 4; g++ {
				wg.Add(1)
				go func() {
					defer wg.Done()
					for k := 0; k < 25; k++ {
						counters[ci].Incr(scopes[a], int64(op.N))
					}
				}()
			}
			wg.Wait()
			model[a][ci] += 100 * int64(op.N)
		case "merge":
			if a == b {
				continue
			}
			scopes[a].Merge(scopes[b])
			for k := range model[a] {
				model[a][k] += model[b][k]
			}
		case "reset":
			if a == b {
				continue
			}
			// Reset makes a report b's values. The source scope is retired
			// afterwards (as exec does with a reply's scope): nothing is
			// claimed about two scopes that stay in use after a Reset.
			scopes[a].Reset(scopes[b])
			copy(model[a], model[b])
			scopes[b] = new(metrics.Scope)
			model[b] = make([]int64, len(counters))
		case "resetnil":
			scopes[a].Reset(nil)
			model[a] = make([]int64, len(counters))
		case "gob":
			var buf bytes.Buffer
			if e := gob.NewEncoder(&buf).Encode(scopes[a]); e != nil {
				return fmt.Errorf("gob encode: %v", e)
			}
			fresh := new(metrics.Scope)
			if e := gob.NewDecoder(&buf).Decode(fresh); e != nil {
				return fmt.Errorf("gob decode: %v", e)
			}
			scopes[b] = fresh
			model[b] = append([]int64{}, model[a]...)
		case "gobstruct":
			// as a field of a larger message (the worker's reply)
			var buf bytes.Buffer
			env := envelope{Tag: "t"}
			env.Scope.Merge(scopes[a])
			if e := gob.NewEncoder(&buf).Encode(&env); e != nil {
				return fmt.Errorf("gob encode: %v", e)
			}
			var out envelope
			if e := gob.NewDecoder(&buf).Decode(&out); e != nil {
				return fmt.Errorf("gob decode: %v", e)
			}
			fresh := new(metrics.Scope)
			fresh.Reset(&out.Scope)
			scopes[b] = fresh
			model[b] = append([]int64{}, model[a]...)
		}
		if e := check(step, op); e != nil {
			return e
		}
	}
	return nil
}

const tLaws = "TestVerifC20Laws"

func TestVerifC20Laws(t *testing.T) {
	rec := vt.New("C20", "scope-laws",
		"rapid: histories of 1..30 operations (Incr, concurrent Incr from 4 goroutines, Merge, Reset(other), Reset(nil), gob round trip of a scope alone and inside a struct) over 4 scopes and 5 registered counters, compared with an integer-vector model; because Counter.Value creates an instance in the scope it reads, each history draws how it is observed: every scope read directly after every step, a gob copy of every scope read after every step (scopes left untouched), or a direct read only at the end; the source of a Reset is retired (nothing is claimed about aliasing); non-trivial = history has a merge/reset/gob step after an increment; distinct by history hash")
	docs, only := vt.Replays(tLaws)
	for _, d := range docs {
		var c lawCase
		if err := json.Unmarshal(d.Case, &c); err != nil {
			t.Fatal(err)
		}
		rec.Case(true, vt.Hash(string(d.Case)), "replay")
		if err := runLaws(c); err != nil {
			rec.Violation(tLaws, "scope-laws", err.Error(), c)
			t.Errorf("replay: %v", err)
		}
	}
	if only || t.Failed() {
		return
	}
	defer rec.Commit(tLaws)
	kinds := []string{"incr", "incr", "incr", "par", "merge", "merge", "reset", "resetnil", "gob", "gobstruct"}
	rapid.Check(t, func(rt *rapid.T) {
		var c lawCase
		c.Observe = rapid.IntRange(0, 2).Draw(rt, "observe")
		n := rapid.IntRange(1, 30).Draw(rt, "nops")
		incr, nt := false, false
		classes := []string{fmt.Sprintf("observe:%d", c.Observe)}
		seen := map[string]bool{}
		for i := 0; i < n; i++ {
			op := Op{K: rapid.SampledFrom(kinds).Draw(rt, "k"), A: rapid.IntRange(0, 3).Draw(rt, "a"), B: rapid.IntRange(0, 3).Draw(rt, "b"),
				C: rapid.IntRange(0, 4).Draw(rt, "c"), N: rapid.IntRange(-3, 1000).Draw(rt, "n")}
			c.Ops = append(c.Ops, op)
			if op.K == "incr" || op.K == "par" {
				incr = true
			} else if incr {
				nt = true
			}
			if !seen[op.K] {
				seen[op.K] = true
				classes = append(classes, "op:"+op.K)
			}
		}
		b, _ := json.Marshal(c)
		rec.Case(nt, vt.Hash(string(b)), classes...)
		if nt && rec.WantSample("history") {
			rec.Sample("history", c)
		}
		if err := runLaws(c); err != nil {
			rec.Pending("scope-laws", err.Error(), c)
			rt.Fatalf("%v", err)
		}
	})
}

// ---------------------------------------------------------------------------

type e2eCase struct {
	Spec progen.Spec   `json:"spec"`
	Cfg  runner.Config `json:"cfg"`
	// Recompute: the Result is discarded and then used by a second Func (which recomputes it) before
	// its scope is read: the counters are still those of computing it once ("once per task").
	Recompute bool `json:"recompute,omitempty"`
}

var e2eOps = []string{"map", "map", "filter", "flatmap", "fold", "reduce", "cogroup", "reshuffle", "repartition", "reshard", "prefixed", "writerfunc", "source"}

var sessions = map[string]*runner.Session{}

func sessionFor(cfg runner.Config) *runner.Session {
	k := cfg.String()
	if s := sessions[k]; s != nil {
		return s
	}
	s := runner.Start(cfg)
	sessions[k] = s
	return s
}

func runE2E(c e2eCase) (err error, counted int) {
	defer func() {
		if r := recover(); r != nil {
			_, stack := vt.PanicSig(r)
			err = fmt.Errorf("panic: %v\n%s", r, stack)
		}
	}()
	spec := c.Spec
	if e := progen.Annotate(&spec); e != nil {
		return fmt.Errorf("harness: %v", e), 0
	}
	spec.RunID = runner.NewRunID()
	defer progen.DropEnv(spec.RunID)
	ref, e := progen.Eval(&spec, nil)
	if e != nil {
		return fmt.Errorf("harness: %v", e), 0
	}
	var want int64
	for i, n := range spec.Nodes {
		if n.Fn != nil && n.Fn.Count && n.Fn.Ctx && ref.Calls[i] > 0 && progen.ReachesRoot(&spec, i) {
			want += int64(ref.Calls[i])
			counted++
		}
	}
	sess := sessionFor(c.Cfg)
	ctx := context.Background()
	var got, got2 int64
	var runErr error
	var rows []progen.Row
	ok := runner.WithTimeout(120*time.Second, func() {
		res, e := sess.Run(ctx, &spec)
		if e != nil {
			runErr = e
			return
		}
		if c.Recompute {
			res.Discard(ctx)
			root := spec.Nodes[spec.Root()]
			use := progen.Spec{Args: []progen.ArgInfo{{Schema: root.Schema, Shards: root.Shards}}}
			use.Nodes = append(use.Nodes, progen.Node{Op: "arg", Arg: 0})
			fn := &progen.Fn{}
			for i := range root.Schema.Cols {
				fn.Exprs = append(fn.Exprs, progen.Expr{K: "col", I: i})
			}
			use.Nodes = append(use.Nodes, progen.Node{Op: "map", In: []int{0}, Fn: fn})
			if e := progen.Annotate(&use); e != nil {
				runErr = fmt.Errorf("harness: %v", e)
				return
			}
			use.RunID = runner.NewRunID()
			defer progen.DropEnv(use.RunID)
			res2, e := sess.Run(ctx, &use, res)
			if e != nil {
				runErr = fmt.Errorf("Func over the discarded Result: %v", e)
				return
			}
			got = progen.UserCounter.Value(res.Scope())
			got2 = progen.UserCounter2.Value(res.Scope())
			if g := progen.UserCounter.Value(res2.Scope()); g != got {
				runErr = fmt.Errorf("the scope of a Func that only copies the Result reports %d increments, the Result's own scope %d", g, got)
				return
			}
			rows, runErr = runner.Scan(ctx, res2, spec.Nodes[spec.Root()].Schema)
			res2.Discard(ctx)
			res.Discard(ctx)
			return
		}
		got = progen.UserCounter.Value(res.Scope())
		got2 = progen.UserCounter2.Value(res.Scope())
		rows, runErr = runner.Scan(ctx, res, spec.Nodes[spec.Root()].Schema)
		res.Discard(ctx)
	})
	if !ok {
		return fmt.Errorf("run did not finish within 120s on %s", c.Cfg), counted
	}
	if runErr != nil {
		return fmt.Errorf("run failed on %s: %v", c.Cfg, runErr), counted
	}
	if e := progen.CheckRows(ref.Stages[spec.Root()], rows); e != nil {
		return fmt.Errorf("rows differ on %s: %v", c.Cfg, e), counted
	}
	if got != want || got2 != 2*want {
		return fmt.Errorf("on %s (discarded and recomputed first: %v) Result.Scope() reports counters (%d, %d); the reference evaluation performs %d increments of 1 and of 2 (counted nodes: %d)", c.Cfg, c.Recompute, got, got2, want, counted), counted
	}
	return nil, counted
}

const tE2E = "TestVerifC20EndToEnd"

func TestVerifC20EndToEnd(t *testing.T) {
	rec := vt.New("C20", "end-to-end",
		"rapid: progen programs (no Head, no shared sub-slices, so that the number of user-function invocations is fixed by the program) whose generated functions increment two registered counters through the task context, run on the local executor and on the bigmachine test system (with/without machine combiners); oracle: Counter.Value(result.Scope()) equals the number of invocations of the reference evaluation (reduce combiners excluded: their call count depends on the combining strategy), rows equal the reference; non-trivial = >= 2 counting operators; distinct by (program, configuration)")
	defer func() {
		for _, s := range sessions {
			s.Close()
		}
	}()
	docs, only := vt.Replays(tE2E)
	for _, d := range docs {
		var c e2eCase
		if err := json.Unmarshal(d.Case, &c); err != nil {
			t.Fatal(err)
		}
		rec.Case(true, vt.Hash(string(d.Case)), "replay")
		if err, _ := runE2E(c); err != nil {
			rec.Violation(tE2E, "counter-total:"+c.Cfg.Exec, err.Error(), c)
			t.Errorf("replay: %v", err)
		}
	}
	if only || t.Failed() {
		return
	}
	defer rec.Commit(tE2E)
	cfgs := []runner.Config{
		{Exec: "local", Parallelism: 4},
		{Exec: "bigmachine", Parallelism: 4, Machineprocs: 2},
		{Exec: "bigmachine", Parallelism: 3, Machineprocs: 1, MachineCombiners: true},
	}
	rapid.Check(t, func(rt *rapid.T) {
		spec := progen.Gen(rt, progen.Opts{MaxOps: 6, Ops: e2eOps, Counters: true, NoShare: true, NoScan: true, MaxRows: 200})
		cfg := rapid.SampledFrom(cfgs).Draw(rt, "cfg")
		c := e2eCase{Spec: *spec, Cfg: cfg, Recompute: rapid.IntRange(0, 3).Draw(rt, "recompute") == 0}
		for _, n := range spec.Nodes {
			if n.Op == "reduce" {
				// known finding: a counting reduce combiner fails the run; excluded by construction
				rec.Exclude("reduce-combiner-metrics-context")
			}
		}
		b, _ := json.Marshal(c)
		err, counted := runE2E(c)
		classes, _ := progen.Classes(spec)
		classes = append(classes, "exec:"+cfg.Exec)
		if c.Recompute {
			classes = append(classes, "discard-and-recompute")
		}
		rec.Case(counted >= 2, vt.Hash(string(b)), classes...)
		if counted >= 2 && rec.WantSample(cfg.Exec) {
			rec.Sample(cfg.Exec, map[string]interface{}{"config": cfg.String(), "program": progen.Summary(spec), "counting_operators": counted})
		}
		if err != nil {
			rec.Pending("counter-total:"+cfg.Exec, err.Error(), c)
			rt.Fatalf("%v", err)
		}
	})
}

// TestVerifC20KnownReduceCombiner executes the canonical instance of a
// recorded known finding: a Reduce combiner that takes a context and uses its
// metrics scope. Generated programs never count in reduce combiners (the class
// is excluded by construction); this instance shows whether the finding still
// reproduces.
func TestVerifC20KnownReduceCombiner(t *testing.T) {
	rec := vt.New("C20", "known-finding-probe", "one fixed program per recorded known finding (not counted as exploration)")
	if _, only := vt.Replays("none"); only {
		return
	}
	if vt.Shard() != 0 {
		return
	}
	for _, cfg := range []runner.Config{{Exec: "local", Parallelism: 2}, {Exec: "bigmachine", Parallelism: 2, Machineprocs: 2}} {
		spec := &progen.Spec{Nodes: []progen.Node{
			{Op: "const", Cols: []progen.Col{progen.TInt, progen.TInt}, NShard: 2, Rows: [][]int{{1, 1}, {1, 2}, {2, 3}, {1, 4}, {2, 5}, {3, 6}}},
			{Op: "reduce", In: []int{0}, Fn: &progen.Fn{Ctx: true, Count: true}},
		}}
		if err := progen.Annotate(spec); err != nil {
			t.Fatal(err)
		}
		spec.RunID = runner.NewRunID()
		sess := runner.Start(cfg)
		var runErr error
		ok := runner.WithTimeout(60*time.Second, func() {
			_, runErr = sess.Run(context.Background(), spec)
		})
		rec.Case(false, vt.Hash("probe", cfg.Exec), "probe")
		if ok {
			sess.Close()
		}
		if !ok {
			rec.KnownStillFails("reduce-combiner-metrics-context:"+cfg.Exec, "run hangs")
		} else if runErr != nil {
			rec.KnownStillFails("reduce-combiner-metrics-context:"+cfg.Exec, firstLine(runErr.Error()))
		}
		progen.DropEnv(spec.RunID)
	}
}

func firstLine(s string) string {
	for i := 0; i < len(s); i++ {
		if s[i] == '\n' {
			return s[:i]
		}
	}
	return s
}
