//go:build verif
// +build verif

// Package c17 checks property C17: readers and scanners deliver the same rows
// however they are read.
package c17

import (
	"bytes"
	"context"
	"encoding/json"
	"fmt"
	"os"
	"reflect"
	"sort"
	"strings"
	"testing"

	"github.com/grailbio/bigslice"
	"github.com/grailbio/bigslice/sliceio"
	"github.com/grailbio/bigslice/sortio"
	"github.com/grailbio/bigslice/typecheck"
	"github.com/grailbio/bigslice/zzverif/progen"
	"github.com/grailbio/bigslice/zzverif/runner"
	"github.com/grailbio/bigslice/zzverif/vgen"
	"github.com/grailbio/bigslice/zzverif/vt"
	"pgregory.net/rapid"
)

func TestMain(m *testing.M) {
	runner.Quiet()
	code := m.Run()
	vt.Flush()
	os.Exit(code)
}

// Case is one generated case.
type Case struct {
	Kind        string         `json:"kind"` // op | source | multi | framereader | readfull | scanner
	Spec        progen.Spec    `json:"spec"`
	Scripts     [][]vgen.Chunk `json:"scripts"`
	EOFWithRows []bool         `json:"eof_with_rows"`
	Dest        []int          `json:"dest"`
	Chunk       int            `json:"chunk"`
	Split       int            `json:"split"` // reduce: number of sorted streams; multi: number of sub-readers
	N           int            `json:"n"`     // readfull: frame length; scanner: arity/type damage selector
}

var opAlphabet = []string{"map", "filter", "flatmap", "head", "fold", "reduce", "cogroup", "writerfunc", "scan", "map", "filter", "flatmap"}

func genCase(t *rapid.T) Case {
	var c Case
	c.Kind = rapid.SampledFrom([]string{"op", "op", "op", "op", "source", "multi", "framereader", "readfull", "scanner", "decoding"}).Draw(t, "kind")
	switch c.Kind {
	case "op":
		spec := progen.Gen(t, progen.Opts{MaxOps: 1, Ops: opAlphabet, NoObserver: true, MaxRows: 300, MaxShards: 3})
		c.Spec = *spec
	default:
		spec := progen.Gen(t, progen.Opts{MaxOps: 1, Ops: []string{"map"}, NoObserver: true, NoScan: true, MaxRows: 300, MaxShards: 4})
		if c.Kind == "source" {
			// keep only the source node
			spec.Nodes = spec.Nodes[:1]
		}
		c.Spec = *spec
	}
	for i := 0; i < 4; i++ {
		c.Scripts = append(c.Scripts, vgen.GenScript(t, true, 140))
		c.EOFWithRows = append(c.EOFWithRows, rapid.Bool().Draw(t, "eofwithrows"))
	}
	c.Dest = vgen.GenDestSizes(t, 300)
	c.Chunk = rapid.SampledFrom([]int{1, 2, 4, 128}).Draw(t, "chunk")
	c.Split = rapid.IntRange(1, 4).Draw(t, "split")
	c.N = rapid.IntRange(0, 300).Draw(t, "n")
	return c
}

func noZeros(s []vgen.Chunk) []vgen.Chunk {
	var out []vgen.Chunk
	for _, c := range s {
		if c.N > 0 {
			out = append(out, c)
		}
	}
	return out
}

func runCase(c Case) (err error) {
	defer func() {
		if r := recover(); r != nil {
			_, stack := vt.PanicSig(r)
			err = fmt.Errorf("panic: %v\n%s", r, stack)
		}
	}()
	spec := c.Spec
	if e := progen.Annotate(&spec); e != nil {
		return fmt.Errorf("harness: %v", e)
	}
	spec.RunID = runner.NewRunID()
	defer progen.DropEnv(spec.RunID)
	o1 := bigslice.VerifSetChunk(c.Chunk)
	o2 := sliceio.VerifSetChunk(c.Chunk)
	o3 := sortio.VerifSetChunk(c.Chunk)
	defer func() {
		bigslice.VerifSetChunk(o1)
		sliceio.VerifSetChunk(o2)
		sortio.VerifSetChunk(o3)
	}()
	ref, e := progen.Eval(&spec, nil)
	if e != nil {
		return fmt.Errorf("harness: reference: %v", e)
	}
	ctx := context.Background()
	root := spec.Root()
	n := &spec.Nodes[root]
	script := func(k int) []vgen.Chunk { return c.Scripts[k%len(c.Scripts)] }
	eofw := func(k int) bool { return c.EOFWithRows[k%len(c.EOFWithRows)] }
	maxReads := func(rows int) int { return 20*rows + 400 }

	switch c.Kind {
	case "source":
		slices := progen.BuildAll(&spec, nil)
		st := ref.Stages[root]
		shards := make([][]progen.Row, n.Shards)
		for sh := 0; sh < n.Shards; sh++ {
			r := slices[root].Reader(sh, nil)
			res, contract := progen.Drain(ctx, r, n.Schema, c.Dest, maxReads(len(st.Rows())))
			if contract != nil {
				return fmt.Errorf("%s shard %d: %v", n.Op, sh, contract)
			}
			if res.Err != nil {
				return fmt.Errorf("%s shard %d: unexpected error %v", n.Op, sh, res.Err)
			}
			shards[sh] = res.Rows
		}
		if e := progen.CheckShards(st, shards); e != nil {
			return fmt.Errorf("%s: %v", n.Op, e)
		}
		var cat []progen.Row
		for _, sh := range shards {
			cat = append(cat, sh...)
		}
		return progen.CheckRows(st, cat)

	case "op":
		if len(n.In) == 0 {
			return nil // the generator stopped at the source
		}
		slices := progen.BuildAll(&spec, nil)
		var deps []sliceio.Reader
		var ins []*progen.Stage
		total := 0
		switch n.Op {
		case "reduce":
			is := spec.Nodes[n.In[0]].Schema
			rows := ref.Stages[n.In[0]].Rows()
			total = len(rows)
			ins = append(ins, progen.SingleShard(is, rows))
			// split into Split sorted, combined streams
			groups := make([][]progen.Row, c.Split)
			for i, r := range rows {
				groups[i%c.Split] = append(groups[i%c.Split], r)
			}
			for k, g := range groups {
				st, e := progen.EvalNode(n, []*progen.Stage{progen.SingleShard(is, g)})
				if e != nil {
					return fmt.Errorf("harness: %v", e)
				}
				comb := append([]progen.Row{}, st.Rows()...)
				sort.SliceStable(comb, func(a, b int) bool { return lessKey(is, comb[a], comb[b]) })
				cr := vgen.NewChunkReader(progen.FrameOf(is, comb), noZeros(script(k)), eofw(k))
				deps = append(deps, cr)
			}
		default:
			for k, in := range n.In {
				is := spec.Nodes[in].Schema
				rows := ref.Stages[in].Rows()
				total += len(rows)
				ins = append(ins, progen.SingleShard(is, rows))
				deps = append(deps, vgen.NewChunkReader(progen.FrameOf(is, rows), script(k), eofw(k)))
			}
		}
		want, e := progen.EvalNode(n, ins)
		if e != nil {
			return fmt.Errorf("harness: %v", e)
		}
		r := slices[root].Reader(0, deps)
		if n.Op == "scan" {
			d := progen.NewDest(progen.Schema{}, 0)
			k, rerr := r.Read(ctx, d.View)
			if k != 0 || rerr != sliceio.EOF {
				return fmt.Errorf("scan reader returned (%d, %v), want (0, EOF)", k, rerr)
			}
			streams := progen.EnvOf(spec.RunID).StreamsOf(root)
			if len(streams) != 1 {
				return fmt.Errorf("scan callback ran %d times", len(streams))
			}
			if e := seqEq(ins[0].Schema, streams[0].Rows, ins[0].Rows()); e != nil {
				return fmt.Errorf("scanner inside Scan: %v", e)
			}
			if streams[0].End != "EOF" {
				return fmt.Errorf("scanner inside Scan ended with %q", streams[0].End)
			}
			return nil
		}
		res, contract := progen.Drain(ctx, r, n.Schema, c.Dest, maxReads(total+len(want.Rows())))
		if contract != nil {
			return fmt.Errorf("%s reader: %v", n.Op, contract)
		}
		if res.Err != nil {
			return fmt.Errorf("%s reader: unexpected error %v", n.Op, res.Err)
		}
		if e := progen.CheckRows(want, res.Rows); e != nil {
			return fmt.Errorf("%s reader: %v", n.Op, e)
		}
		if n.Op == "writerfunc" {
			streams := progen.EnvOf(spec.RunID).StreamsOf(root)
			if len(streams) != 1 {
				return fmt.Errorf("writer callback saw %d streams", len(streams))
			}
			if e := seqEq(n.Schema, streams[0].Rows, ins[0].Rows()); e != nil {
				return fmt.Errorf("writer callback: %v", e)
			}
			if streams[0].Ends != 1 || streams[0].End != "EOF" || streams[0].After != 0 {
				return fmt.Errorf("writer callback: %d end-of-stream calls (%q), %d calls after", streams[0].Ends, streams[0].End, streams[0].After)
			}
		}
		return nil
	}

	// library readers work on the rows of the root stage
	s := n.Schema
	rows := ref.Stages[root].Rows()
	switch c.Kind {
	case "multi":
		groups := make([][]progen.Row, c.Split)
		per := (len(rows) + c.Split - 1) / c.Split
		for i, r := range rows {
			groups[i/maxInt(per, 1)] = append(groups[i/maxInt(per, 1)], r)
		}
		var subs []sliceio.ReadCloser
		for k, g := range groups {
			subs = append(subs, sliceio.NopCloser(vgen.NewChunkReader(progen.FrameOf(s, g), script(k), eofw(k))))
		}
		res, contract := progen.Drain(ctx, sliceio.MultiReader(subs...), s, c.Dest, maxReads(len(rows)))
		if contract != nil {
			return fmt.Errorf("MultiReader: %v", contract)
		}
		if res.Err != nil {
			return fmt.Errorf("MultiReader: unexpected error %v", res.Err)
		}
		if e := seqEq(s, res.Rows, rows); e != nil {
			return fmt.Errorf("MultiReader over %d sub-readers: %v", c.Split, e)
		}
	case "decoding":
		// the rows are written as a stream of batches whose sizes follow script 0 and read back
		// through the decoding reader with the destination-size schedule
		var buf bytes.Buffer
		w := sliceio.NewEncodingWriter(&buf)
		sizes := noZeros(script(0))
		if len(sizes) == 0 {
			sizes = []vgen.Chunk{{N: 128}}
		}
		for pos, k := 0, 0; pos < len(rows); k++ {
			n := sizes[k%len(sizes)].N
			if pos+n > len(rows) {
				n = len(rows) - pos
			}
			if e := w.Write(ctx, progen.FrameOf(s, rows[pos:pos+n])); e != nil {
				return fmt.Errorf("harness: encoding: %v", e)
			}
			pos += n
		}
		res, contract := progen.Drain(ctx, sliceio.NewDecodingReader(&buf), s, c.Dest, maxReads(len(rows)))
		if contract != nil {
			return fmt.Errorf("decoding reader: %v", contract)
		}
		if res.Err != nil {
			return fmt.Errorf("decoding reader: unexpected error %v", res.Err)
		}
		if e := seqEq(s, res.Rows, rows); e != nil {
			return fmt.Errorf("decoding reader (batch sizes %v): %v", sizes, e)
		}
	case "framereader":
		res, contract := progen.Drain(ctx, sliceio.FrameReader(progen.FrameOf(s, rows)), s, c.Dest, maxReads(len(rows)))
		if contract != nil {
			return fmt.Errorf("FrameReader: %v", contract)
		}
		if res.Err != nil {
			return fmt.Errorf("FrameReader: unexpected error %v", res.Err)
		}
		if e := seqEq(s, res.Rows, rows); e != nil {
			return fmt.Errorf("FrameReader: %v", e)
		}
	case "readfull":
		cr := vgen.NewChunkReader(progen.FrameOf(s, rows), script(0), eofw(0))
		d := progen.NewDest(s, c.N)
		k, rerr := sliceio.ReadFull(ctx, cr, d.View)
		if e := d.CheckGuards(); e != nil {
			return fmt.Errorf("ReadFull: %v", e)
		}
		want := c.N
		if len(rows) < want {
			want = len(rows)
		}
		if k != want {
			return fmt.Errorf("ReadFull into %d rows from a stream of %d: n=%d, want %d (err %v)", c.N, len(rows), k, want, rerr)
		}
		if rerr != nil && rerr != sliceio.EOF {
			return fmt.Errorf("ReadFull: unexpected error %v", rerr)
		}
		if len(rows) < c.N && rerr != sliceio.EOF {
			return fmt.Errorf("ReadFull returned a short frame (%d of %d) without EOF", k, c.N)
		}
		if e := seqEq(s, progen.FrameRows(d.View, k), rows[:k]); e != nil {
			return fmt.Errorf("ReadFull: %v", e)
		}
	case "scanner":
		cr := vgen.NewChunkReader(progen.FrameOf(s, rows), script(0), eofw(0))
		sc := sliceio.NewScanner(s.Type(), sliceio.NopCloser(cr))
		ptrs := make([]interface{}, len(s.Cols))
		for i := range ptrs {
			ptrs[i] = reflect.New(progen.ColType(s.Cols[i])).Interface()
		}
		var got []progen.Row
		useScanv := c.N%3 == 0 && len(s.Cols) > 0
		if useScanv {
			batch := 1 + c.N%7
			for {
				cols := make([]interface{}, len(s.Cols))
				for i := range cols {
					cols[i] = reflect.MakeSlice(reflect.SliceOf(progen.ColType(s.Cols[i])), batch, batch).Interface()
				}
				k, ok := sc.Scanv(ctx, cols...)
				for j := 0; j < k; j++ {
					row := make(progen.Row, len(cols))
					for i := range cols {
						row[i] = progen.CopyVal(reflect.ValueOf(cols[i]).Index(j).Interface())
					}
					got = append(got, row)
				}
				if !ok {
					break
				}
			}
		} else {
			for sc.Scan(ctx, ptrs...) {
				row := make(progen.Row, len(ptrs))
				for i := range row {
					row[i] = progen.CopyVal(reflect.ValueOf(ptrs[i]).Elem().Interface())
				}
				got = append(got, row)
				if len(got) > len(rows)+10 {
					return fmt.Errorf("scanner yields more rows than the stream holds")
				}
			}
		}
		if e := sc.Err(); e != nil {
			return fmt.Errorf("scanner: Err() = %v at the end of a healthy stream", e)
		}
		if e := seqEq(s, got, rows); e != nil {
			return fmt.Errorf("scanner: %v", e)
		}
		if sc.Scan(ctx, ptrs...) {
			return fmt.Errorf("scanner: Scan returned true after the end")
		}
		// wrong arity / wrong type must be rejected with an error
		cr2 := vgen.NewChunkReader(progen.FrameOf(s, rows), nil, false)
		sc2 := sliceio.NewScanner(s.Type(), sliceio.NopCloser(cr2))
		var bad []interface{}
		switch {
		case c.N%3 == 0 || len(s.Cols) == 0:
			bad = append(append([]interface{}{}, ptrs...), new(int)) // one too many
		case c.N%3 == 1:
			bad = append([]interface{}{}, ptrs...)
			bad[c.N%len(bad)] = new(complex64) // no column has this type
		default:
			bad = append([]interface{}{}, ptrs[:len(ptrs)-1]...) // one too few
		}
		// the bad destinations are passed on the first or on a later call (after k good ones)
		good := 0
		if len(rows) > 1 {
			good = (c.N / 2) % minInt(len(rows), 4)
		}
		for k := 0; k < good; k++ {
			if !sc2.Scan(ctx, ptrs...) {
				return fmt.Errorf("scanner: Scan %d of %d rows returned false: %v", k, len(rows), sc2.Err())
			}
		}
		badOK := false
		func() {
			defer func() {
				if r := recover(); r != nil {
					err = fmt.Errorf("scanner: destinations of the wrong arity/type on call %d made Scan panic instead of reporting an error: %v", good, r)
				}
			}()
			badOK = sc2.Scan(ctx, bad...)
		}()
		if err != nil {
			return err
		}
		if badOK {
			return fmt.Errorf("scanner accepted destinations of the wrong arity/type on call %d", good)
		}
		if e := sc2.Err(); e == nil {
			return fmt.Errorf("scanner rejected wrong destinations without reporting an error")
		} else if _, ok := e.(*typecheck.Error); !ok && !strings.Contains(e.Error(), "wrong") {
			return fmt.Errorf("scanner: wrong destinations reported as %T %v", e, e)
		}
	}
	return nil
}

func minInt(a, b int) int {
	if a < b {
		return a
	}
	return b
}

func maxInt(a, b int) int {
	if a > b {
		return a
	}
	return b
}

func lessKey(s progen.Schema, a, b progen.Row) bool {
	for c := 0; c < s.Prefix; c++ {
		if progen.LessVal(s.Cols[c], a[c], b[c]) {
			return true
		}
		if progen.LessVal(s.Cols[c], b[c], a[c]) {
			return false
		}
	}
	return false
}

func seqEq(s progen.Schema, got, want []progen.Row) error {
	for i := 0; i < len(got) && i < len(want); i++ {
		if progen.RowKey(got[i]) != progen.RowKey(want[i]) {
			return fmt.Errorf("row %d is %s, want %s", i, progen.RowKey(got[i]), progen.RowKey(want[i]))
		}
	}
	if len(got) != len(want) {
		return fmt.Errorf("%d rows delivered, want %d", len(got), len(want))
	}
	return nil
}

func sigOf(c Case, e error) string {
	k := c.Kind
	if c.Kind == "op" || c.Kind == "source" {
		k = c.Spec.Nodes[len(c.Spec.Nodes)-1].Op
	}
	m := e.Error()
	switch {
	case strings.HasPrefix(m, "panic"):
		return k + ":panic"
	case strings.Contains(m, "outside the"):
		return k + ":write-outside-destination"
	case strings.Contains(m, "altered later"):
		return k + ":earlier-frame-altered"
	case strings.Contains(m, "returned n="):
		return k + ":bad-count"
	}
	return k + ":rows"
}

const testName = "TestVerifC17Readers"

func TestVerifC17Readers(t *testing.T) {
	rec := vt.New("C17", "readers",
		"rapid: (a) every operator's reader obtained through the public Slice.Reader(shard, deps) for Map, Filter, Flatmap, Head, Fold, Reduce (1..4 sorted streams), Cogroup (1..3 inputs), WriterFunc, Scan and the sources Const, ReaderFunc, ScanReader, with chunking readers as dependencies (arbitrary chunk sizes, zero-row reads except for merge inputs, EOF with or after the last rows); (b) sliceio.MultiReader, FrameReader, ReadFull, Scanner (Scan and Scanv, wrong arity/type) and the decoding reader over a stream of batches of generated sizes; destination-size schedules 1..300, internal vector size {1,2,4,128}; oracle: rows equal the reference (sequence; multiset for Fold/Reduce/Cogroup) whatever the schedule, 0<=n<=len(dest), rows outside the destination view untouched, frames delivered earlier unchanged; non-trivial = the stream is longer than the first destination or the internal vector; distinct by case hash")
	docs, only := vt.Replays(testName)
	for _, d := range docs {
		var c Case
		if err := json.Unmarshal(d.Case, &c); err != nil {
			t.Fatal(err)
		}
		rec.Case(true, vt.Hash(string(d.Case)), "replay")
		if err := runCase(c); err != nil {
			rec.Violation(testName, sigOf(c, err), err.Error(), c)
			t.Errorf("replay: %v", err)
		}
	}
	if only || t.Failed() {
		return
	}
	defer rec.Commit(testName)
	rapid.Check(t, func(rt *rapid.T) {
		c := genCase(rt)
		b, _ := json.Marshal(c)
		k := c.Kind
		if k == "op" || k == "source" {
			k = "reader:" + c.Spec.Nodes[len(c.Spec.Nodes)-1].Op
		}
		rows := progen.Summary(&c.Spec)["source_rows"].(int)
		nt := rows > c.Dest[0] || rows > c.Chunk
		rec.Case(nt, vt.Hash(string(b)), k)
		if nt && rec.WantSample(k) {
			rec.Sample(k, map[string]interface{}{"kind": c.Kind, "program": progen.Summary(&c.Spec), "scripts": c.Scripts[:2], "dest": c.Dest, "chunk": c.Chunk, "split": c.Split})
		}
		if err := runCase(c); err != nil {
			rec.Pending(sigOf(c, err), err.Error(), c)
			rt.Fatalf("%v", err)
		}
	})
}
