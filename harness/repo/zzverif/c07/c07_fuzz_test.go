//go:build verif
// +build verif

package c07

import (
	"bufio"
	"bytes"
	"context"
	"fmt"
	"os"
	"strconv"
	"strings"
	"testing"

	"github.com/grailbio/bigslice/sliceio"
	"github.com/grailbio/bigslice/zzverif/vgen"
	"github.com/grailbio/bigslice/zzverif/vt"
)

// fuzzSchemas are the schemas a fuzz input can select.
var fuzzSchemas = []vgen.Schema{
	{Cols: []int{0}, Prefix: 1},
	{Cols: []int{1, 0}, Prefix: 1},
	{Cols: []int{8, 13}, Prefix: 1},
	{Cols: []int{15, 14, 7}, Prefix: 1},
	{Cols: []int{2, 16}, Prefix: 1},
	{Cols: []int{9, 3, 5, 1}, Prefix: 1},
}

// fuzzOne is the fuzz target body: decode arbitrary bytes with the selected
// schema; it must not panic and must terminate; if the whole input decodes
// cleanly, re-encoding the decoded rows and decoding again reproduces them.
func fuzzOne(data []byte, schemaSel uint8, destSel uint8) error {
	if hugeLength(data) {
		return nil // known finding class (allocation by a corrupt length field); excluded by construction
	}
	s := fuzzSchemas[int(schemaSel)%len(fuzzSchemas)]
	dest := []int{1 + int(destSel)%7, 1 + int(destSel)}
	err, _ := guard(func() error {
		r := sliceio.NewDecodingReader(bytes.NewReader(data))
		res, contract := s.Drain(context.Background(), r, dest, 1<<20)
		if contract != nil {
			return contract
		}
		if res.Err != nil {
			return nil
		}
		// clean decode: round trip what was decoded
		var buf bytes.Buffer
		enc := sliceio.NewEncodingWriter(&buf)
		fr := s.FrameOfRows(res.Rows)
		if err := enc.Write(context.Background(), fr); err != nil {
			return fmt.Errorf("re-encode of cleanly decoded rows failed: %v", err)
		}
		r2 := sliceio.NewDecodingReader(bytes.NewReader(buf.Bytes()))
		res2, contract := s.Drain(context.Background(), r2, dest, 1<<20)
		if contract != nil {
			return contract
		}
		if res2.Err != nil {
			return fmt.Errorf("decode of re-encoded rows failed: %v", res2.Err)
		}
		return vgen.SameSeq(res2.Rows, res.Rows)
	})
	return err
}


func fuzzSeeds() [][]byte {
	var seeds [][]byte
	for i, sc := range fuzzSchemas {
		st := Stream{Schema: sc}
		for b := 0; b < 1+i%3; b++ {
			var batch [][]int
			for r := 0; r < (i+b)%4; r++ {
				row := make([]int, len(sc.Cols))
				for c := range row {
					row[c] = (r*7 + c*3 + i) % 20
				}
				batch = append(batch, row)
			}
			st.Batches = append(st.Batches, batch)
		}
		data, _, _, err := st.encode()
		if err == nil {
			seeds = append(seeds, data)
		}
	}
	// hostile constants: negative / large lengths, absurd message sizes
	seeds = append(seeds,
		[]byte{0x03, 0x04, 0x00, 0x01},
		[]byte{0x04, 0x04, 0x00, 0xff, 0xff},
		[]byte{0x05, 0x04, 0x00, 0xfe, 0x7f, 0xff},
		[]byte{0xf8, 0xff, 0xff, 0xff, 0xff, 0xff, 0xff, 0xff, 0xff},
		[]byte{0x03, 0x04, 0x00, 0x00, 0x07, 0x06, 0x00, 0xfc, 0, 0, 0, 0},
	)
	return seeds
}

func FuzzVerifC07Decode(f *testing.F) {
	for i, s := range fuzzSeeds() {
		f.Add(s, uint8(i), uint8(i*5))
	}
	f.Fuzz(func(t *testing.T, data []byte, schemaSel uint8, destSel uint8) {
		if err := fuzzOne(data, schemaSel, destSel); err != nil {
			t.Fatalf("%v", err)
		}
	})
}

// TestVerifC07FuzzReplay re-executes a saved fuzz input (Go corpus file format).
func TestVerifC07FuzzReplay(t *testing.T) {
	p := os.Getenv("VERIF_FUZZ_REPLAY")
	if p == "" {
		t.Skip()
	}
	rec := vt.New("C07", "fuzz-replay", "replay of a saved fuzz input")
	fh, err := os.Open(p)
	if err != nil {
		t.Fatal(err)
	}
	defer fh.Close()
	var data []byte
	var sels []uint8
	sc := bufio.NewScanner(fh)
	sc.Buffer(make([]byte, 1<<20), 1<<26)
	for sc.Scan() {
		line := strings.TrimSpace(sc.Text())
		switch {
		case strings.HasPrefix(line, "[]byte("):
			q := strings.TrimSuffix(strings.TrimPrefix(line, "[]byte("), ")")
			u, err := strconv.Unquote(q)
			if err != nil {
				t.Fatalf("bad corpus line: %v", err)
			}
			data = []byte(u)
		case strings.HasPrefix(line, "uint8(") || strings.HasPrefix(line, "byte("):
			q := line[strings.Index(line, "(")+1 : len(line)-1]
			if strings.HasPrefix(q, "'") {
				r, _, _, err := strconv.UnquoteChar(q[1:], '\'')
				if err != nil {
					t.Fatal(err)
				}
				sels = append(sels, uint8(r))
			} else {
				n, err := strconv.ParseUint(q, 0, 8)
				if err != nil {
					t.Fatal(err)
				}
				sels = append(sels, uint8(n))
			}
		}
	}
	for len(sels) < 2 {
		sels = append(sels, 0)
	}
	rec.Case(true, vt.Hash(string(data), sels), "fuzz-replay")
	if err := fuzzOne(data, sels[0], sels[1]); err != nil {
		rec.Violation("TestVerifC07FuzzReplay", "fuzz-crasher", err.Error(), map[string]interface{}{"file": p})
		t.Fatalf("%v", err)
	}
}
