//go:build verif
// +build verif

// Package c07 checks property C07: row streams decode to the rows written;
// corruption is detected, never returned.
package c07

import (
	"bytes"
	"context"
	"encoding/json"
	"fmt"
	"io"
	"os"
	"strings"
	"testing"

	"github.com/grailbio/bigslice/sliceio"
	"github.com/grailbio/bigslice/zzverif/vgen"
	"github.com/grailbio/bigslice/zzverif/vt"
	"pgregory.net/rapid"
)

func TestMain(m *testing.M) {
	code := m.Run()
	vt.Flush()
	os.Exit(code)
}

// Stream describes one encoded stream: a schema and a list of batches.
type Stream struct {
	Schema  vgen.Schema `json:"schema"`
	Batches [][][]int   `json:"batches"` // batch -> row -> selector per column
	Dest    []int       `json:"dest"`    // destination-size schedule
	Chunked int         `json:"chunked"` // 0: bytes.Reader (implements io.ByteReader); k>0: plain reader returning at most k bytes per Read
}

// Damage describes how the encoded bytes are damaged before decoding.
type Damage struct {
	Kind string `json:"kind"` // "flip" | "trunc" | "burst"
	Pos  int    `json:"pos"`
	Bit  int    `json:"bit,omitempty"`
	Data []byte `json:"data,omitempty"` // xor mask for bursts (first byte != 0)
}

type DamageCase struct {
	Stream Stream   `json:"stream"`
	Damage []Damage `json:"damage"`
}

type slowReader struct {
	r io.Reader
	k int
}

func (s *slowReader) Read(p []byte) (int, error) {
	if len(p) > s.k {
		p = p[:s.k]
	}
	return s.r.Read(p)
}

func (s Stream) reader(b []byte) io.Reader {
	if s.Chunked == 0 {
		return bytes.NewReader(b)
	}
	return &slowReader{bytes.NewReader(b), s.Chunked}
}

// encode writes the stream and returns the bytes, the batch end offsets and the rows.
func (s Stream) encode() (data []byte, ends []int, rows []vgen.Row, err error) {
	var buf bytes.Buffer
	enc := sliceio.NewEncodingWriter(&buf)
	ctx := context.Background()
	for _, b := range s.Batches {
		f := s.Schema.MakeFrame(b)
		if err := enc.Write(ctx, f); err != nil {
			return nil, nil, nil, err
		}
		ends = append(ends, buf.Len())
		rows = append(rows, s.Schema.Rows(b)...)
	}
	return buf.Bytes(), ends, rows, nil
}

func genStream(t *rapid.T, maxBatch, maxBatches int) Stream {
	var s Stream
	s.Schema = vgen.GenSchema(t, 4, false, true)
	nb := rapid.IntRange(0, maxBatches).Draw(t, "nbatch")
	for i := 0; i < nb; i++ {
		n := vgen.SizeGen(maxBatch).Draw(t, "batchlen")
		s.Batches = append(s.Batches, vgen.GenRows(t, len(s.Schema.Cols), n, 24))
	}
	s.Dest = vgen.GenDestSizes(t, 300)
	s.Chunked = rapid.SampledFrom([]int{0, 0, 1, 3, 7, 4096}).Draw(t, "chunked")
	return s
}

func guard(f func() error) (err error, sig string) {
	defer func() {
		if r := recover(); r != nil {
			s, stack := vt.PanicSig(r)
			sig = s
			err = fmt.Errorf("panic: %v\n%s", r, stack)
		}
	}()
	return f(), ""
}

// roundTrip checks decode(encode(rows)) == rows.
func roundTrip(s Stream) (error, string) {
	return guard(func() error {
		data, _, rows, err := s.encode()
		if err != nil {
			return fmt.Errorf("encode failed: %v", err)
		}
		r := sliceio.NewDecodingReader(s.reader(data))
		res, contract := s.Schema.Drain(context.Background(), r, s.Dest, 10*len(rows)+10*len(s.Batches)+100)
		if contract != nil {
			return contract
		}
		if res.Err != nil {
			return fmt.Errorf("decoding an undamaged stream failed: %v", res.Err)
		}
		if err := vgen.SameSeq(res.Rows, rows); err != nil {
			return fmt.Errorf("decoded rows differ from written rows: %v", err)
		}
		// reading past the end keeps reporting EOF
		d := s.Schema.NewDest(3)
		if n, err := r.Read(context.Background(), d.View); n != 0 || err != sliceio.EOF {
			return fmt.Errorf("read after end of stream returned (%d, %v), want (0, EOF)", n, err)
		}
		return nil
	})
}

// applyDamage returns the damaged bytes and the index of the first damaged
// batch (len(ends) if beyond the stream); inside tells whether the damage is
// strictly inside a batch (not a truncation exactly at a batch boundary).
func applyDamage(data []byte, ends []int, dmg []Damage) (out []byte, firstBatch int, inside bool) {
	out = append([]byte{}, data...)
	trunc := -1
	for _, d := range dmg {
		switch d.Kind {
		case "flip":
			if d.Pos < len(out) {
				out[d.Pos] ^= 1 << uint(d.Bit)
			}
		case "burst":
			for i, m := range d.Data {
				if d.Pos+i < len(out) {
					out[d.Pos+i] ^= m
				}
			}
		case "trunc":
			if trunc < 0 || d.Pos < trunc {
				trunc = d.Pos
			}
		}
	}
	if trunc >= 0 && trunc < len(out) {
		out = out[:trunc]
	}
	// what actually differs (overlapping masks may cancel)
	first := -1
	for i := range out {
		if out[i] != data[i] {
			first = i
			break
		}
	}
	batchOf := func(pos int) int {
		for k, e := range ends {
			if pos < e {
				return k
			}
		}
		return len(ends)
	}
	if first >= 0 {
		return out, batchOf(first), true
	}
	// no byte differs: the stream is a (possibly complete) prefix of the original
	cut := len(out)
	inside = cut != 0 && cut != len(data)
	for _, e := range ends {
		if cut == e {
			inside = false
		}
	}
	return out, batchOf(cut), inside
}

// checkDamaged decodes damaged bytes and applies the integrity oracle.
func checkDamaged(s Stream, data []byte, ends []int, rows []vgen.Row, dmg []Damage) (error, string) {
	return guard(func() error {
		bad, k, inside := applyDamage(data, ends, dmg)
		if hugeLength(bad) {
			return errExcluded
		}
		before := 0
		for i := 0; i < k && i < len(s.Batches); i++ {
			before += len(s.Batches[i])
		}
		r := sliceio.NewDecodingReader(s.reader(bad))
		res, contract := s.Schema.Drain(context.Background(), r, s.Dest, 10*len(rows)+10*len(s.Batches)+100)
		if contract != nil {
			return contract
		}
		for i := range res.Rows {
			if i >= len(rows) || !vgen.EqRow(res.Rows[i], rows[i]) {
				return fmt.Errorf("damage %v: delivered row %d = %v is not the row that was written", dmg, i, res.Rows[i])
			}
		}
		// A Read that reports n > 0 rows together with its error has delivered those rows (ReadFull,
		// MultiReader and every io.Reader-style caller account for n before looking at the error):
		// they must be correct rows of an undamaged batch like any other delivered row.
		for j, row := range res.ErrRows {
			i := len(res.Rows) + j
			if i >= len(rows) || !vgen.EqRow(row, rows[i]) {
				return fmt.Errorf("damage %v: the failing read (%v) reported %d rows as read; row %d = %v is not the row that was written", dmg, res.Err, len(res.ErrRows), i, row)
			}
		}
		if inside && len(res.Rows)+len(res.ErrRows) > before {
			return fmt.Errorf("damage %v inside batch %d: %d rows reported as read (%d of them together with the error), only %d precede the damaged batch", dmg, k, len(res.Rows)+len(res.ErrRows), len(res.ErrRows), before)
		}
		if inside {
			if res.Err == nil {
				return fmt.Errorf("damage %v inside batch %d: reader reported a clean end of stream after %d rows (stream has %d)", dmg, k, len(res.Rows), len(rows))
			}
			if len(res.Rows) > before {
				return fmt.Errorf("damage %v inside batch %d: %d rows delivered, only %d precede the damaged batch", dmg, k, len(res.Rows), before)
			}
		} else {
			// cut exactly at a batch boundary: a clean, shorter stream
			if res.Err != nil {
				return fmt.Errorf("stream cut at a batch boundary: unexpected error %v", res.Err)
			}
			if len(res.Rows) != before {
				return fmt.Errorf("stream cut at boundary of batch %d: %d rows delivered, want %d", k, len(res.Rows), before)
			}
		}
		return nil
	})
}

var errExcluded = fmt.Errorf("excluded")

// hugeLength scans the top-level gob framing of the (damaged) stream for an
// int-typed message whose value exceeds 1<<20. Such a stream makes the reader
// allocate a batch of that many rows before it can verify the checksum (a
// recorded known finding); the case is excluded by construction and counted.
func hugeLength(b []byte) bool {
	for len(b) > 0 {
		n, w := gobUint(b)
		if w == 0 || n > uint64(len(b)-w) {
			return false
		}
		msg := b[w : w+int(n)]
		b = b[w+int(n):]
		if len(msg) >= 3 && msg[0] == 0x04 && msg[1] == 0x00 { // type id int, singleton delta 0
			v, w2 := gobUint(msg[2:])
			if w2 > 0 {
				var x int64
				if v&1 != 0 {
					x = ^int64(v >> 1)
				} else {
					x = int64(v >> 1)
				}
				if x > 1<<20 {
					return true
				}
			}
		}
	}
	return false
}

func gobUint(b []byte) (uint64, int) {
	if len(b) == 0 {
		return 0, 0
	}
	if b[0] <= 0x7f {
		return uint64(b[0]), 1
	}
	n := -int(int8(b[0]))
	if n > 8 || len(b) < 1+n {
		return 0, 0
	}
	var x uint64
	for _, c := range b[1 : 1+n] {
		x = x<<8 | uint64(c)
	}
	return x, 1 + n
}

// ---------------------------------------------------------------------------

const tRound = "TestVerifC07RoundTrip"
const tDamage = "TestVerifC07Damage"

func classesOf(s Stream) (classes []string, nontrivial bool, total int) {
	multi, empty, big := false, false, false
	for _, b := range s.Batches {
		total += len(b)
		if len(b) == 0 {
			empty = true
		}
	}
	multi = len(s.Batches) >= 2
	codec, gobv := false, false
	for _, c := range s.Schema.Cols {
		switch vgen.Universe[c].Name {
		case "dictstr":
			codec = true
		case "gobstruct", "ints", "map":
			gobv = true
		}
	}
	small := false
	for _, d := range s.Dest {
		for _, b := range s.Batches {
			if d < len(b) {
				small = true
			}
			if len(b) >= 129 {
				big = true
			}
		}
	}
	if multi {
		classes = append(classes, "multi-batch")
	}
	if empty {
		classes = append(classes, "empty-batch")
	}
	if codec {
		classes = append(classes, "custom-codec")
	}
	if gobv {
		classes = append(classes, "gob-typed-column")
	}
	if small {
		classes = append(classes, "dest-smaller-than-batch")
	}
	if big {
		classes = append(classes, "batch>=129")
	}
	if s.Chunked > 0 {
		classes = append(classes, "non-bytereader-input")
	}
	return classes, total > 0 && multi, total
}

func TestVerifC07RoundTrip(t *testing.T) {
	rec := vt.New("C07", "round-trip",
		"rapid: schema of 1..4 columns over an 18-type universe (built-in, gob-encoded struct/slice/map, a custom codec with per-stream dictionary state, a custom codec that hands its rows to gob and so relies on zeroed destination rows), 0..6 batches of 0..300 rows (sizes biased to 0,1,127..129,255..257), destination-size schedules of 1..300, byte source with/without io.ByteReader; oracle: decoded rows == written rows in order then EOF, Reader contract (0<=n<=len, guard rows, earlier frames unchanged); non-trivial = >=2 batches and >=1 row; distinct by hash of the case")
	docs, only := vt.Replays(tRound)
	for _, d := range docs {
		var s Stream
		if err := json.Unmarshal(d.Case, &s); err != nil {
			t.Fatal(err)
		}
		err, sig := roundTrip(s)
		rec.Case(true, vt.Hash(string(d.Case)), "replay")
		if err != nil {
			if sig == "" {
				sig = "roundtrip"
			}
			rec.Violation(tRound, sig, err.Error(), s)
			t.Errorf("replay: %v", err)
		}
	}
	if only || t.Failed() {
		return
	}
	defer rec.Commit(tRound)
	rapid.Check(t, func(rt *rapid.T) {
		s := genStream(rt, 300, 6)
		classes, nt, _ := classesOf(s)
		b, _ := json.Marshal(s)
		rec.Case(nt, vt.Hash(string(b)), classes...)
		if nt && rec.WantSample("round-trip") {
			rec.Sample("round-trip", sampleOf(s))
		}
		err, sig := roundTrip(s)
		if err != nil {
			if sig == "" {
				sig = "roundtrip"
			}
			rec.Pending(sig, err.Error(), s)
			rt.Fatalf("%v", err)
		}
	})
}

func sampleOf(s Stream) interface{} {
	lens := []int{}
	for _, b := range s.Batches {
		lens = append(lens, len(b))
	}
	return map[string]interface{}{"columns": s.Schema.Names(), "batch_lengths": lens, "dest_sizes": s.Dest, "chunked_input": s.Chunked}
}

func runDamageCase(rec *vt.Rec, dc DamageCase) (error, string) {
	data, ends, rows, err := dc.Stream.encode()
	if err != nil {
		return fmt.Errorf("encode failed: %v", err), "encode"
	}
	for _, d := range dc.Damage {
		if d.Pos > len(data) {
			return nil, ""
		}
	}
	e, sig := checkDamaged(dc.Stream, data, ends, rows, dc.Damage)
	if e == errExcluded {
		return nil, ""
	}
	if e != nil && sig == "" {
		sig = damageSig(e)
	}
	return e, sig
}

func damageSig(e error) string {
	switch {
	case strings.Contains(e.Error(), "clean end of stream"):
		return "damage:silent-truncation"
	case strings.Contains(e.Error(), "is not the row that was written"):
		return "damage:wrong-row"
	}
	return "damage:other"
}

// TestVerifC07Damage: for each generated small stream, EVERY single-bit flip
// and EVERY truncation point of the encoded bytes is executed; larger streams
// get random bursts and multi-point damage.
func TestVerifC07Damage(t *testing.T) {
	rec := vt.New("C07", "damage",
		"rapid generates small streams (1..3 batches of 0..5 rows); for each stream every single-bit flip and every truncation point of its encoded bytes is executed (complete enumeration per stream), plus random 2..8-byte bursts and 2..3-point damage on streams of up to 6 batches x 40 rows; oracle: delivered rows are a prefix of the written rows, damage strictly inside batch k gives a non-EOF error with no row of batch >= k delivered, a cut at a batch boundary is a clean shorter stream, no panic; evaluations = damaged decodes; every damaged decode is non-trivial; distinct by (stream, damage) hash")
	docs, only := vt.Replays(tDamage)
	for _, d := range docs {
		var dc DamageCase
		if err := json.Unmarshal(d.Case, &dc); err != nil {
			t.Fatal(err)
		}
		err, sig := runDamageCase(rec, dc)
		rec.Case(true, vt.Hash(string(d.Case)), "replay")
		if err != nil {
			rec.Violation(tDamage, sig, err.Error(), dc)
			t.Errorf("replay: %v", err)
		}
	}
	if only || t.Failed() {
		return
	}
	defer rec.Commit(tDamage)
	rapid.Check(t, func(rt *rapid.T) {
		exhaustive := rapid.IntRange(0, 3).Draw(rt, "mode") != 0
		var s Stream
		if exhaustive {
			s = genStream(rt, 5, 3)
			if len(s.Batches) == 0 {
				s.Batches = [][][]int{{}}
			}
		} else {
			s = genStream(rt, 40, 6)
		}
		data, ends, rows, err := s.encode()
		if err != nil {
			rt.Fatalf("encode: %v", err)
		}
		sb, _ := json.Marshal(s)
		sh := vt.Hash(string(sb))
		fail := func(dmg []Damage, e error, sig string) {
			if sig == "" {
				sig = damageSig(e)
			}
			rec.Pending(sig, e.Error(), DamageCase{s, dmg})
			rt.Fatalf("%v", e)
		}
		if exhaustive {
			for pos := 0; pos < len(data); pos++ {
				for bit := 0; bit < 8; bit++ {
					dmg := []Damage{{Kind: "flip", Pos: pos, Bit: bit}}
					e, sig := checkDamaged(s, data, ends, rows, dmg)
					if e == errExcluded {
						rec.Exclude("huge-batch-length")
						continue
					}
					rec.Case(true, vt.Hash(sh, "f", pos, bit), "bit-flip")
					if e != nil {
						fail(dmg, e, sig)
					}
				}
			}
			for pos := 0; pos <= len(data); pos++ {
				dmg := []Damage{{Kind: "trunc", Pos: pos}}
				e, sig := checkDamaged(s, data, ends, rows, dmg)
				rec.Case(true, vt.Hash(sh, "t", pos), "truncation")
				if e != nil && e != errExcluded {
					fail(dmg, e, sig)
				}
			}
			if rec.WantSample("exhaustive-stream") {
				rec.Sample("exhaustive-stream", map[string]interface{}{"stream": sampleOf(s), "encoded_bytes": len(data), "bit_flips": 8 * len(data), "truncations": len(data) + 1})
			}
			return
		}
		if len(data) == 0 {
			return
		}
		nd := rapid.IntRange(1, 12).Draw(rt, "ndamage")
		for i := 0; i < nd; i++ {
			var dmg []Damage
			np := rapid.IntRange(1, 3).Draw(rt, "points")
			for j := 0; j < np; j++ {
				kind := rapid.SampledFrom([]string{"burst", "burst", "flip", "trunc"}).Draw(rt, "kind")
				pos := rapid.IntRange(0, len(data)-1).Draw(rt, "pos")
				switch kind {
				case "flip":
					dmg = append(dmg, Damage{Kind: "flip", Pos: pos, Bit: rapid.IntRange(0, 7).Draw(rt, "bit")})
				case "trunc":
					dmg = append(dmg, Damage{Kind: "trunc", Pos: pos})
				default:
					n := rapid.IntRange(2, 8).Draw(rt, "burstlen")
					mask := rapid.SliceOfN(rapid.Byte(), n, n).Draw(rt, "mask")
					if mask[0] == 0 {
						mask[0] = 0x80
					}
					dmg = append(dmg, Damage{Kind: "burst", Pos: pos, Data: mask})
				}
			}
			e, sig := checkDamaged(s, data, ends, rows, dmg)
			if e == errExcluded {
				rec.Exclude("huge-batch-length")
				continue
			}
			rec.Case(true, vt.Hash(sh, fmt.Sprint(dmg)), "random-damage")
			if rec.WantSample("random-damage") {
				rec.Sample("random-damage", map[string]interface{}{"stream": sampleOf(s), "damage": dmg})
			}
			if e != nil {
				fail(dmg, e, sig)
			}
		}
	})
}

// TestVerifC07Dump is a development aid: prints the encoded bytes of a replay.
func TestVerifC07Dump(t *testing.T) {
	p := os.Getenv("VERIF_DUMP")
	if p == "" {
		t.Skip()
	}
	d, err := vt.LoadReplay(p)
	if err != nil {
		t.Fatal(err)
	}
	var dc DamageCase
	if err := json.Unmarshal(d.Case, &dc); err != nil {
		t.Fatal(err)
	}
	data, ends, _, _ := dc.Stream.encode()
	bad, k, inside := applyDamage(data, ends, dc.Damage)
	fmt.Printf("ends=%v k=%d inside=%v\norig=% x\nbad =% x\n", ends, k, inside, data, bad)
	r := sliceio.NewDecodingReader(dc.Stream.reader(bad))
	for i := 0; i < 5; i++ {
		dd := dc.Stream.Schema.NewDest(10)
		n, err := r.Read(context.Background(), dd.View)
		fmt.Println("read", n, err)
		if err != nil {
			break
		}
	}
}
