//go:build verif
// +build verif

// Package runner starts bigslice sessions in the configurations the checks
// compare, runs progen programs in them and scans results.
package runner

import (
	"runtime"
	"context"
	"fmt"
	"io/ioutil"
	"log"
	"reflect"
	"sync"
	"sync/atomic"
	"time"

	baselog "github.com/grailbio/base/log"
	"github.com/grailbio/base/retry"
	"github.com/grailbio/bigmachine"
	"github.com/grailbio/bigmachine/testsystem"
	"github.com/grailbio/bigslice"
	"github.com/grailbio/bigslice/exec"
	"github.com/grailbio/bigslice/internal/defaultsize"
	"github.com/grailbio/bigslice/sliceio"
	"github.com/grailbio/bigslice/sortio"
	"github.com/grailbio/bigslice/zzverif/progen"
)

// Config is one execution configuration.
type Config struct {
	Exec             string  `json:"exec"` // local | bigmachine
	Machineprocs     int     `json:"machineprocs,omitempty"`
	Parallelism      int     `json:"parallelism,omitempty"`
	MaxLoad          float64 `json:"maxload,omitempty"`
	MachineCombiners bool    `json:"machine_combiners,omitempty"`
	NoShuffleReaders bool    `json:"no_shuffle_readers,omitempty"`
	Chunk            int     `json:"chunk,omitempty"` // 0: default (128)
	Canary           int     `json:"canary,omitempty"`
	SpillBatch       int     `json:"spill_batch,omitempty"`
}

func (c Config) String() string {
	return fmt.Sprintf("%s(mp=%d,p=%d,ml=%.2f,mc=%v,nsr=%v,chunk=%d,canary=%d,spill=%d)", c.Exec, c.Machineprocs, c.Parallelism, c.MaxLoad, c.MachineCombiners, c.NoShuffleReaders, c.Chunk, c.Canary, c.SpillBatch)
}

// Default is the local executor with default sizes.
var Default = Config{Exec: "local", Parallelism: 4}

var quietOnce sync.Once

// Quiet silences bigslice's and bigmachine's logging.
func Quiet() {
	quietOnce.Do(func() {
		log.SetOutput(ioutil.Discard)
		baselog.SetOutputter(nopOutputter{})
	})
}

type nopOutputter struct{}

func (nopOutputter) Level() baselog.Level                           { return baselog.Off }
func (nopOutputter) Output(calldepth int, level baselog.Level, s string) error { return nil }

// Session is a running session.
type Session struct {
	Cfg    Config
	Sess   *exec.Session
	System *testsystem.System
	restore func()
}

var sizeMu sync.Mutex

// Start starts a session. Size knobs are process-global: the caller must not
// overlap sessions with different knobs.
func Start(cfg Config) *Session {
	Quiet()
	s := &Session{Cfg: cfg}
	chunk, canary, spill := cfg.Chunk, cfg.Canary, cfg.SpillBatch
	if chunk == 0 {
		chunk = 128
	}
	if canary == 0 {
		// (the flag's default is 256; a sorting reader that sees more rows than its canary sizes its
		// next frame to the 32 MiB spill target, i.e. millions of rows - by design, but far too heavy for
		// thousands of generated programs; the small canaries are exercised by C10 and C04)
		canary = 1 << 14
	}
	if spill == 0 {
		spill = chunk
	}
	sizeMu.Lock()
	oldChunk, oldCanary, oldSpill := defaultsize.Chunk, defaultsize.SortCanary, sliceio.SpillBatchSize
	defaultsize.Chunk = chunk
	defaultsize.SortCanary = canary
	sliceio.SpillBatchSize = spill
	oc1 := bigslice.VerifSetChunk(chunk)
	oc2 := sliceio.VerifSetChunk(chunk)
	oc3 := sortio.VerifSetChunk(chunk)
	oldSR := exec.DoShuffleReaders
	exec.DoShuffleReaders = !cfg.NoShuffleReaders
	// Time-scale knobs that only stretch waiting (DESIGN.md 2.4): probation of a machine after a
	// failed task and the back-off of remote reads.
	oldProb := exec.ProbationTimeout
	exec.ProbationTimeout = 300 * time.Millisecond
	oldRetry := exec.VerifSetRetryPolicy(retry.MaxRetries(retry.Backoff(5*time.Millisecond, 50*time.Millisecond, 2), 5))
	sizeMu.Unlock()
	s.restore = func() {
		sizeMu.Lock()
		defaultsize.Chunk, defaultsize.SortCanary, sliceio.SpillBatchSize = oldChunk, oldCanary, oldSpill
		bigslice.VerifSetChunk(oc1)
		sliceio.VerifSetChunk(oc2)
		sortio.VerifSetChunk(oc3)
		exec.DoShuffleReaders = oldSR
		exec.ProbationTimeout = oldProb
		exec.VerifSetRetryPolicy(oldRetry)
		sizeMu.Unlock()
	}
	var opts []exec.Option
	p := cfg.Parallelism
	if p == 0 {
		p = 4
	}
	opts = append(opts, exec.Parallelism(p))
	if cfg.MaxLoad > 0 {
		opts = append(opts, exec.MaxLoad(cfg.MaxLoad))
	}
	if cfg.MachineCombiners {
		opts = append(opts, exec.MachineCombiners)
	}
	switch cfg.Exec {
	case "local":
		opts = append(opts, exec.Local)
	case "bigmachine":
		sys := testsystem.New()
		sys.Machineprocs = cfg.Machineprocs
		if sys.Machineprocs == 0 {
			sys.Machineprocs = 2
		}
		// failure-free runs: generous keepalives, so that a busy host does not fake a machine loss
		sys.KeepalivePeriod = time.Second
		sys.KeepaliveTimeout = 20 * time.Second
		sys.KeepaliveRpcTimeout = 10 * time.Second
		s.System = sys
		opts = append(opts, exec.Bigmachine(sys))
	default:
		panic("runner: unknown executor " + cfg.Exec)
	}
	s.Sess = exec.Start(opts...)
	return s
}

// Close shuts the session down and restores the size knobs.
func (s *Session) Close() {
	if s.Sess != nil {
		s.Sess.Shutdown()
		s.Sess = nil
	}
	if s.restore != nil {
		s.restore()
		s.restore = nil
	}
}

var runID int64

// NewRunID returns a fresh run id (registry key for observers and counters).
func NewRunID() int { return int(atomic.AddInt64(&runID, 1)) }

// Run runs a program; results of earlier runs may be passed as arguments.
func (s *Session) Run(ctx context.Context, spec *progen.Spec, args ...*exec.Result) (*exec.Result, error) {
	a := []interface{}{*spec}
	for _, r := range args {
		a = append(a, r)
	}
	return s.Sess.Run(ctx, progen.ProgFunc(len(args)), a...)
}

// Scan reads all rows of a result.
func Scan(ctx context.Context, res *exec.Result, schema progen.Schema) (rows []progen.Row, err error) {
	sc := res.Scanner()
	defer func() {
		if cerr := sc.Close(); cerr != nil && err == nil {
			err = cerr
		}
	}()
	ptrs := make([]interface{}, len(schema.Cols))
	for c := range ptrs {
		ptrs[c] = reflect.New(progen.ColType(schema.Cols[c])).Interface()
	}
	for sc.Scan(ctx, ptrs...) {
		row := make(progen.Row, len(ptrs))
		for c := range row {
			row[c] = progen.CopyVal(reflect.ValueOf(ptrs[c]).Elem().Interface())
		}
		rows = append(rows, row)
	}
	return rows, sc.Err()
}

// WithTimeout runs f and reports whether it finished within its budget. The
// budget is d on an idle host; it is stretched by the host's load (1-minute
// load average per CPU, at most 8x), re-read while waiting, because the
// "never blocks" clauses are decided by a time budget and a budget that a
// busy machine can exhaust would turn slowness into a reported wedge.
func WithTimeout(d time.Duration, f func()) bool {
	done := make(chan struct{})
	go func() {
		defer close(done)
		f()
	}()
	start := time.Now()
	limit := d
	for {
		wait := limit - time.Since(start)
		if wait > 5*time.Second {
			wait = 5 * time.Second
		}
		if wait < 0 {
			wait = 0
		}
		select {
		case <-done:
			return true
		case <-time.After(wait):
		}
		if l := time.Duration(float64(d) * LoadFactor()); l > limit {
			limit = l
		}
		if time.Since(start) >= limit {
			select {
			case <-done:
				return true
			default:
			}
			return false
		}
	}
}

// LoadFactor is max(1, load1/ncpu), capped at 8.
func LoadFactor() float64 {
	b, err := ioutil.ReadFile("/proc/loadavg")
	if err != nil {
		return 1
	}
	var l1 float64
	if _, err := fmt.Sscanf(string(b), "%f", &l1); err != nil {
		return 1
	}
	f := l1 / float64(runtime.NumCPU())
	if f < 1 {
		return 1
	}
	if f > 8 {
		return 8
	}
	return f
}

var _ = bigmachine.Local
