//go:build verif
// +build verif

// Package c19 checks property C19: concurrent runs in a session are race-free
// and each gets its correct result.
package c19

import (
	"context"
	"encoding/json"
	"fmt"
	"os"
	"runtime"
	"strings"
	"sync"
	"testing"
	"time"

	"github.com/grailbio/bigslice/exec"
	"github.com/grailbio/bigslice/zzverif/progen"
	"github.com/grailbio/bigslice/zzverif/runner"
	"github.com/grailbio/bigslice/zzverif/vt"
	"pgregory.net/rapid"
)

var maxprocs = []int{1, 2, 4, 16}

func TestMain(m *testing.M) {
	runner.Quiet()
	runtime.GOMAXPROCS(maxprocs[vt.Shard()%len(maxprocs)])
	code := m.Run()
	vt.Flush()
	os.Exit(code)
}

// Job is one concurrently started activity of a wave.
type Job struct {
	K    string       `json:"k"` // run | scan
	Spec *progen.Spec `json:"spec,omitempty"`
	Args []int        `json:"args,omitempty"` // indices of base results
	R    int          `json:"r"`              // scan: base result
	// Cancel > 0: the run's context is cancelled Cancel-1 ms after the wave starts. A cancelled run may
	// fail or still succeed (then with its correct rows); the other activities are not affected by it.
	Cancel int `json:"cancel,omitempty"`
}

// Case: base programs are run one after the other; then the base results are
// optionally discarded; then every wave starts all of its jobs at once.
type Case struct {
	Exec    string        `json:"exec"`
	Base    []progen.Spec `json:"base"`
	Discard []int         `json:"discard"` // base results discarded before the first wave
	Waves   [][]Job       `json:"waves"`
}

type baseResult struct {
	res   *exec.Result
	spec  *progen.Spec
	stage *progen.Stage
}

const jobTimeout = 180 * time.Second

func runCase(c Case) (err error) {
	defer func() {
		if r := recover(); r != nil {
			_, stack := vt.PanicSig(r)
			err = fmt.Errorf("panic: %v\n%s", r, stack)
		}
	}()
	cfg := runner.Config{Exec: c.Exec, Parallelism: 4}
	if c.Exec == "bigmachine" {
		cfg.Machineprocs = 2
	}
	sess := runner.Start(cfg)
	wedged := false
	defer func() {
		if !wedged {
			sess.Close()
		}
	}()
	ctx := context.Background()
	var base []*baseResult
	for i := range c.Base {
		spec := c.Base[i]
		if e := progen.Annotate(&spec); e != nil {
			return fmt.Errorf("harness: %v", e)
		}
		spec.RunID = runner.NewRunID()
		ref, e := progen.Eval(&spec, nil)
		if e != nil {
			return fmt.Errorf("harness: %v", e)
		}
		res, e := sess.Run(ctx, &spec)
		if e != nil {
			return fmt.Errorf("base run %d failed: %v", i, e)
		}
		base = append(base, &baseResult{res, &spec, ref.Stages[spec.Root()]})
	}
	if len(base) == 0 {
		return fmt.Errorf("harness: no base program")
	}
	discarded := map[int]bool{}
	for _, d := range c.Discard {
		i := d % len(base)
		base[i].res.Discard(ctx)
		discarded[i] = true
	}
	anyDiscard := len(discarded) > 0
	waveDiscard := false // a Discard runs alongside a wave: how often a shard is recomputed is then not bounded by the property
	// streams of the base observers before the waves
	before := map[int]int{}
	for i, b := range base {
		before[i] = len(progen.EnvOf(b.spec.RunID).StreamsOf(b.spec.Root()))
	}
	for wi, wave := range c.Waves {
		for _, job := range wave {
			if job.K == "run" && job.Cancel > 0 {
				// a task that is being run on behalf of a cancelled run may be run again by another one
				waveDiscard = true
				if c.Exec == "bigmachine" {
					// Session.Run returns at once when its context is cancelled, while executor goroutines
					// of the abandoned evaluation may still be dispatching tasks; shutting the session down
					// under them panics ("call after close" in the invocation cache). Outside the listed
					// properties (DESIGN 10.3): such sessions are left running instead of being shut down.
					wedged = true
				}
			}
			if job.K == "discard" {
				// a Discard runs alongside this wave (and its effect lasts): scans of base results may
				// fail from here on, runs must recompute what they need
				anyDiscard = true
				waveDiscard = true
				discarded[job.R%len(base)] = true
			}
		}
		errs := make([]error, len(wave))
		var wg sync.WaitGroup
		start := make(chan struct{})
		for ji, job := range wave {
			wg.Add(1)
			go func(ji int, job Job) {
				defer wg.Done()
				<-start
				ok := runner.WithTimeout(jobTimeout, func() {
					switch job.K {
					case "discard":
						base[job.R%len(base)].res.Discard(ctx)
					case "scan":
						b := base[job.R%len(base)]
						schema := b.spec.Nodes[b.spec.Root()].Schema
						if len(schema.Cols) == 0 {
							return
						}
						rows, e := runner.Scan(ctx, b.res, schema)
						if e != nil {
							if anyDiscard {
								return // outputs may be gone
							}
							errs[ji] = fmt.Errorf("wave %d: scan of base result %d alongside concurrent runs failed: %v", wi, job.R%len(base), e)
							return
						}
						if d := progen.CheckRows(b.stage, rows); d != nil {
							errs[ji] = fmt.Errorf("wave %d: scan of base result %d alongside concurrent runs returned other rows: %v", wi, job.R%len(base), d)
						}
					case "run":
						spec := *job.Spec
						if e := progen.Annotate(&spec); e != nil {
							errs[ji] = fmt.Errorf("harness: %v", e)
							return
						}
						spec.RunID = runner.NewRunID()
						defer progen.DropEnv(spec.RunID)
						var args []*exec.Result
						var stages []*progen.Stage
						for _, a := range job.Args {
							args = append(args, base[a%len(base)].res)
							stages = append(stages, base[a%len(base)].stage)
						}
						ref, e := progen.Eval(&spec, stages)
						if e != nil {
							errs[ji] = fmt.Errorf("harness: %v", e)
							return
						}
						rctx := ctx
						if job.Cancel > 0 {
							cctx, cancel := context.WithCancel(ctx)
							defer cancel()
							tm := time.AfterFunc(time.Duration(job.Cancel-1)*time.Millisecond, cancel)
							defer tm.Stop()
							rctx = cctx
						}
						res, e := sess.Run(rctx, &spec, args...)
						if e != nil {
							if job.Cancel > 0 {
								return // the user cancelled this run
							}
							errs[ji] = fmt.Errorf("wave %d: one of %d concurrent runs failed: %v", wi, len(wave), e)
							return
						}
						if len(spec.Nodes[spec.Root()].Schema.Cols) == 0 {
							return
						}
						rows, e := runner.Scan(ctx, res, spec.Nodes[spec.Root()].Schema)
						if e != nil {
							if anyDiscard {
								// the result may consist of (or its scan may re-read) task outputs that a Discard
								// running alongside has dropped after the run completed: a direct scan may fail (C12)
								return
							}
							errs[ji] = fmt.Errorf("wave %d: scanning the result of a concurrent run failed: %v", wi, e)
							return
						}
						if d := progen.CheckRows(ref.Stages[spec.Root()], rows); d != nil {
							errs[ji] = fmt.Errorf("wave %d: one of %d concurrent runs (args %v) returned rows that differ from what it returns when run alone: %v", wi, len(wave), job.Args, d)
						}
					}
				})
				if !ok {
					buf := make([]byte, 16<<20)
					buf = buf[:runtime.Stack(buf, true)]
					var keep []string
					seen := map[string]int{}
					for _, g := range strings.Split(string(buf), "\n\n") {
						if !strings.Contains(g, "grailbio/") {
							continue
						}
						key := ""
						for i, l := range strings.Split(g, "\n") {
							if i > 0 && !strings.HasPrefix(l, "\t") {
								if j := strings.Index(l, "("); j > 0 {
									l = l[:j]
								}
								key += l + ";"
							}
						}
						seen[key]++
						if seen[key] > 2 {
							continue
						}
						if len(g) > 2500 {
							g = g[:2500]
						}
						keep = append(keep, g)
					}
					if len(keep) > 150 {
						keep = keep[:150]
					}
					errs[ji] = fmt.Errorf("wave %d: a concurrent %s did not finish within %v (wedged)\n%s", wi, job.K, jobTimeout, strings.Join(keep, "\n\n"))
				}
			}(ji, job)
		}
		close(start)
		wg.Wait()
		for _, e := range errs {
			if e != nil {
				if strings.Contains(e.Error(), "wedged") {
					wedged = true
				}
				return e
			}
		}
	}
	// shared tasks are executed by one of the runs and awaited by the others: on the local executor
	// (which never re-runs a task on its own) every shard of a base result used by the waves was
	// computed at most once more after its Discard, whatever number of concurrent runs needed it
	if c.Exec == "local" && !waveDiscard {
		for i, b := range base {
			streams := progen.EnvOf(b.spec.RunID).StreamsOf(b.spec.Root())
			if b.spec.Nodes[b.spec.Root()].Op != "writerfunc" {
				continue
			}
			extra := map[int]int{}
			for _, st := range streams[before[i]:] {
				extra[st.Shard]++
			}
			limit := 0
			if discarded[i] || anyDiscard {
				limit = 1
			}
			for sh, n := range extra {
				if n > limit {
					return fmt.Errorf("shard %d of base result %d was computed %d more times during the concurrent waves (at most %d expected: shared tasks run once and are awaited by the other runs)", sh, i, n, limit)
				}
			}
		}
	}
	for _, b := range base {
		progen.DropEnv(b.spec.RunID)
	}
	return nil
}

var waveOps = []string{"map", "filter", "flatmap", "fold", "reduce", "cogroup", "reshuffle", "repartition", "reshard", "prefixed", "source", "arg", "arg", "arg"}

func genCase(t *rapid.T) Case {
	var c Case
	c.Exec = rapid.SampledFrom([]string{"local", "local", "bigmachine"}).Draw(t, "exec")
	nb := rapid.IntRange(1, 2).Draw(t, "nbase")
	var infos []progen.ArgInfo
	for i := 0; i < nb; i++ {
		s := progen.Gen(t, progen.Opts{MaxOps: 4, MaxRows: 150, MaxShards: 4, NoScan: true, Yield: true, Ops: []string{"map", "filter", "flatmap", "fold", "reduce", "cogroup", "reshuffle", "repartition", "prefixed", "source"}})
		c.Base = append(c.Base, *s)
		root := s.Nodes[s.Root()]
		infos = append(infos, progen.ArgInfo{Schema: root.Schema, Shards: root.Shards})
	}
	if rapid.IntRange(0, 2).Draw(t, "discard") == 0 {
		c.Discard = []int{rapid.IntRange(0, nb-1).Draw(t, "which")}
	}
	cancels := rapid.IntRange(0, 3).Draw(t, "cancels") == 0
	nw := rapid.IntRange(1, 2).Draw(t, "nwaves")
	for w := 0; w < nw; w++ {
		var wave []Job
		nj := rapid.IntRange(2, 6).Draw(t, "njobs")
		for j := 0; j < nj; j++ {
			switch rapid.IntRange(0, 9).Draw(t, "scanjob") {
			case 0, 1:
				wave = append(wave, Job{K: "scan", R: rapid.IntRange(0, nb-1).Draw(t, "r")})
				continue
			case 2:
				wave = append(wave, Job{K: "discard", R: rapid.IntRange(0, nb-1).Draw(t, "r")})
				continue
			}
			job := Job{K: "run"}
			o := progen.Opts{MaxOps: 3, MaxRows: 100, MaxShards: 4, NoScan: true, NoObserver: true, Yield: true, Ops: waveOps}
			na := rapid.IntRange(1, 2).Draw(t, "nargs")
			for a := 0; a < na; a++ {
				k := rapid.IntRange(0, nb-1).Draw(t, "arg")
				job.Args = append(job.Args, k)
				o.Args = append(o.Args, infos[k])
				o.ArgLevels = append(o.ArgLevels, progen.LBag)
				o.ArgSubs = append(o.ArgSubs, false)
			}
			job.Spec = progen.Gen(t, o)
			if cancels && rapid.IntRange(0, 2).Draw(t, "cancelled") == 0 {
				job.Cancel = 1 + rapid.SampledFrom([]int{0, 1, 2, 5, 15, 40}).Draw(t, "cancel_ms")
			}
			wave = append(wave, job)
		}
		c.Waves = append(c.Waves, wave)
	}
	return c
}

func sigOf(c Case, err error) string {
	m := err.Error()
	switch {
	case strings.Contains(m, "wedged"):
		return "concurrent:wedged:" + c.Exec
	case strings.Contains(m, "panic"):
		return "concurrent:panic:" + c.Exec
	case strings.Contains(m, "more times"):
		return "concurrent:shared-task-recomputed:" + c.Exec
	case strings.Contains(m, "other rows") || strings.Contains(m, "differ from"):
		return "concurrent:rows:" + c.Exec
	case strings.Contains(m, "concurrent runs failed"):
		return "concurrent:run-failed:" + c.Exec
	}
	return "concurrent:other:" + c.Exec
}

const testName = "TestVerifC19Concurrent"

func TestVerifC19Concurrent(t *testing.T) {
	rec := vt.New("C19", "concurrent-runs",
		"rapid: 1..2 base programs are run, optionally one base Result is discarded, then 1..2 waves of 2..6 activities are started at the same instant in one session (runs of generated programs over the base Results, scans of base Results, and Discards of base Results); generated functions yield the processor every few calls; GOMAXPROCS is 1, 2, 4 or 16 depending on the shard; local executor and bigmachine test system; oracle: every run succeeds and returns the rows of its reference evaluation (what it returns when executed alone) - also a run whose arguments are being discarded alongside it -, concurrent scans return the base rows (a scan of outputs that a Discard has dropped may fail, never return other rows), nothing wedges (180 s), and on the local executor a base shard needed by several concurrent runs is recomputed at most once; in the thorough tier the same test also runs under the race detector and any report naming bigslice code is a violation; non-trivial = a wave has >= 2 runs sharing a base Result; distinct by case hash")
	docs, only := vt.Replays(testName)
	for _, d := range docs {
		var c Case
		if err := json.Unmarshal(d.Case, &c); err != nil {
			t.Fatal(err)
		}
		rec.Case(true, vt.Hash(string(d.Case)), "replay")
		if err := runCase(c); err != nil {
			rec.Violation(testName, sigOf(c, err), err.Error(), c)
			t.Errorf("replay: %v", err)
		}
	}
	if only || t.Failed() {
		return
	}
	defer rec.Commit(testName)
	rapid.Check(t, func(rt *rapid.T) {
		c := genCase(rt)
		b, _ := json.Marshal(c)
		nt := false
		for _, w := range c.Waves {
			use := map[int]int{}
			for _, j := range w {
				if j.K == "run" {
					seen := map[int]bool{}
					for _, a := range j.Args {
						if !seen[a%len(c.Base)] {
							seen[a%len(c.Base)] = true
							use[a%len(c.Base)]++
						}
					}
				}
			}
			for _, n := range use {
				if n >= 2 {
					nt = true
				}
			}
		}
		classes := []string{"exec:" + c.Exec, fmt.Sprintf("gomaxprocs:%d", runtime.GOMAXPROCS(0))}
		if len(c.Discard) > 0 {
			classes = append(classes, "discard-before-wave")
		}
		rec.Case(nt, vt.Hash(string(b)), classes...)
		if nt && rec.WantSample(c.Exec) {
			var waves [][]string
			for _, w := range c.Waves {
				var js []string
				for _, j := range w {
					js = append(js, fmt.Sprintf("%s%v", j.K, j.Args))
				}
				waves = append(waves, js)
			}
			rec.Sample(c.Exec, map[string]interface{}{"exec": c.Exec, "base_programs": len(c.Base), "discard": c.Discard, "waves": waves, "gomaxprocs": runtime.GOMAXPROCS(0)})
		}
		if err := runCase(c); err != nil {
			rec.Pending(sigOf(c, err), err.Error(), c)
			rt.Fatalf("%v", err)
		}
	})
}
