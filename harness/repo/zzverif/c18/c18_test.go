//go:build verif
// +build verif

// Package c18 checks property C18: operator constructors accept exactly the
// documented type schemas (exhaustive cross product of a finite universe of
// slice types and function signatures against an independent statement of
// each constructor's documented schema, Appendix B of DESIGN.md).
package c18

import (
	"context"
	"fmt"
	"os"
	"reflect"
	"runtime"
	"strings"
	"testing"
	"unsafe"

	"github.com/grailbio/bigslice"
	"github.com/grailbio/bigslice/sliceio"
	"github.com/grailbio/bigslice/typecheck"
	"github.com/grailbio/bigslice/zzverif/vt"
	_ "pgregory.net/rapid" // the driver passes rapid's flags to every test binary
)

func TestMain(m *testing.M) {
	code := m.Run()
	vt.Flush()
	os.Exit(code)
}

// NS is a named string type without registered frame operations.
type NS string

var (
	tInt     = reflect.TypeOf(int(0))
	tString  = reflect.TypeOf("")
	tFloat   = reflect.TypeOf(float64(0))
	tBytes   = reflect.TypeOf([]byte(nil))
	tUnit    = reflect.TypeOf(struct{}{})
	tInts    = reflect.TypeOf([]int(nil))
	tStrs    = reflect.TypeOf([]string(nil))
	tNS      = reflect.TypeOf(NS(""))
	tFunc    = reflect.TypeOf(func() {})
	tIface   = reflect.TypeOf((*interface{})(nil)).Elem()
	tBool    = reflect.TypeOf(false)
	tErr     = reflect.TypeOf((*error)(nil)).Elem()
	tCtx     = reflect.TypeOf((*context.Context)(nil)).Elem()
	tInt64   = reflect.TypeOf(int64(0))
	tSlice   = reflect.TypeOf((*bigslice.Slice)(nil)).Elem()
	tScanner = reflect.TypeOf((*sliceio.Scanner)(nil))
)

// hashable/comparable: the element types with registered frame operations.
func keyable(t reflect.Type) bool {
	switch t {
	case tInt, tString, tFloat, tBytes, tUnit, tInt64, tBool:
		return true
	}
	return false
}

// sliceSpec describes an input slice type.
type sliceSpec struct {
	cols   []reflect.Type
	prefix int
	shards int
}

func (s sliceSpec) String() string {
	n := make([]string, len(s.cols))
	for i, c := range s.cols {
		n[i] = c.String()
	}
	return fmt.Sprintf("<%s>/%d", strings.Join(n, ","), s.prefix)
}

func (s sliceSpec) build() bigslice.Slice {
	cols := make([]interface{}, len(s.cols))
	for i, c := range s.cols {
		cols[i] = reflect.MakeSlice(reflect.SliceOf(c), 0, 0).Interface()
	}
	sl := bigslice.Const(s.shards, cols...)
	if s.prefix != 1 {
		sl = bigslice.Prefixed(sl, s.prefix)
	}
	return sl
}

func sliceUniverse(thorough bool) []sliceSpec {
	elems := []reflect.Type{tInt, tString, tFloat, tBytes, tUnit, tInts, tNS, tFunc}
	var out []sliceSpec
	for _, a := range elems {
		out = append(out, sliceSpec{[]reflect.Type{a}, 1, 2})
	}
	for _, a := range elems {
		for _, b := range elems {
			if !thorough && a != tInt && a != tString && a != tNS && a != tInts && b != tInt && b != tString {
				continue
			}
			out = append(out, sliceSpec{[]reflect.Type{a, b}, 1, 2})
			if a == tInt || a == tString || a == tInts {
				out = append(out, sliceSpec{[]reflect.Type{a, b}, 2, 3})
			}
		}
	}
	for _, cs := range [][]reflect.Type{{tInt, tInt, tInt}, {tString, tInt, tFloat}, {tInt, tString, tBytes}, {tInts, tInt, tInt}, {tInt, tNS, tString}} {
		out = append(out, sliceSpec{cs, 1, 2}, sliceSpec{cs, 2, 2}, sliceSpec{cs, 3, 4})
	}
	return out
}

// sig is a function signature.
type sig struct {
	ctx      bool
	in       []reflect.Type
	out      []reflect.Type
	variadic bool
}

func (s sig) String() string {
	var in []string
	if s.ctx {
		in = append(in, "ctx")
	}
	for i, t := range s.in {
		if s.variadic && i == len(s.in)-1 {
			in = append(in, "..."+t.Elem().String())
		} else {
			in = append(in, t.String())
		}
	}
	var out []string
	for _, t := range s.out {
		out = append(out, t.String())
	}
	return fmt.Sprintf("func(%s) (%s)", strings.Join(in, ","), strings.Join(out, ","))
}

func (s sig) fn() interface{} {
	in := s.in
	if s.ctx {
		in = append([]reflect.Type{tCtx}, in...)
	}
	ft := reflect.FuncOf(in, s.out, s.variadic)
	return reflect.MakeFunc(ft, func([]reflect.Value) []reflect.Value { panic("never called") }).Interface()
}

func tuples(univ []reflect.Type, max int) [][]reflect.Type {
	out := [][]reflect.Type{{}}
	last := out
	for n := 1; n <= max; n++ {
		var next [][]reflect.Type
		for _, p := range last {
			for _, t := range univ {
				next = append(next, append(append([]reflect.Type{}, p...), t))
			}
		}
		out = append(out, next...)
		last = next
	}
	return out
}

func sigUniverse(thorough bool) []sig {
	params := []reflect.Type{tInt, tString, tFloat, tBytes, tInts, tNS, tIface}
	outs := []reflect.Type{tInt, tString, tBool, tInts, tStrs, tErr}
	maxIn := 2
	if thorough {
		maxIn = 3
	}
	var sigs []sig
	for _, in := range tuples(params, maxIn) {
		for _, out := range tuples(outs, 2) {
			for _, ctx := range []bool{false, true} {
				sigs = append(sigs, sig{ctx, in, out, false})
				if n := len(in); n > 0 && in[n-1].Kind() == reflect.Slice {
					sigs = append(sigs, sig{ctx, in, out, true})
				}
			}
		}
	}
	return sigs
}

type verdict int

const (
	reject verdict = iota
	accept
	open // the documentation leaves it open: recorded, never asserted
)

// canApply is the documented parameter rule of Map/Filter/Flatmap: the
// slice's columns are assignable to the function's parameters (a variadic
// tail absorbs the remaining columns).
func canApply(s sliceSpec, f sig) bool {
	if f.variadic {
		n := len(f.in) - 1
		if len(s.cols) < n {
			return false
		}
		for i := 0; i < n; i++ {
			if !s.cols[i].AssignableTo(f.in[i]) {
				return false
			}
		}
		e := f.in[n].Elem()
		for i := n; i < len(s.cols); i++ {
			if !s.cols[i].AssignableTo(e) {
				return false
			}
		}
		return true
	}
	if len(s.cols) != len(f.in) {
		return false
	}
	for i := range f.in {
		if !s.cols[i].AssignableTo(f.in[i]) {
			return false
		}
	}
	return true
}

func keysOK(s sliceSpec) bool {
	if s.prefix < 1 || s.prefix > len(s.cols) {
		return false
	}
	for i := 0; i < s.prefix; i++ {
		if !keyable(s.cols[i]) {
			return false
		}
	}
	return true
}

func sameTypes(a, b []reflect.Type) bool {
	if len(a) != len(b) {
		return false
	}
	for i := range a {
		if a[i] != b[i] {
			return false
		}
	}
	return true
}

// expectation for constructor k; want is the expected column types on accept (nil: not asserted).
func expect(k string, s sliceSpec, f sig) (v verdict, want []reflect.Type) {
	switch k {
	case "map":
		if !canApply(s, f) || len(f.out) == 0 {
			return reject, nil
		}
		return accept, f.out
	case "filter":
		if !canApply(s, f) || len(f.out) != 1 || f.out[0].Kind() != reflect.Bool {
			return reject, nil
		}
		return accept, s.cols
	case "flatmap":
		if !canApply(s, f) {
			return reject, nil
		}
		var el []reflect.Type
		for _, o := range f.out {
			if o.Kind() != reflect.Slice {
				return reject, nil
			}
			el = append(el, o.Elem())
		}
		if len(f.out) == 0 {
			return open, nil
		}
		return accept, el
	case "fold":
		if f.variadic {
			return open, nil
		}
		if len(s.cols) < 2 || len(f.out) != 1 {
			return reject, nil
		}
		wantIn := append([]reflect.Type{f.out[0]}, s.cols[1:]...)
		if !sameTypes(f.in, wantIn) {
			return reject, nil
		}
		switch s.cols[0] {
		case tInt, tString, tInt64:
			return accept, []reflect.Type{s.cols[0], f.out[0]}
		}
		if !keyable(s.cols[0]) {
			return reject, nil
		}
		return open, nil // hashable key of another kind: documented as "partitionable" but not accumulable
	case "reduce":
		if f.variadic {
			return open, nil
		}
		if len(s.cols)-s.prefix != 1 || !keysOK(s) {
			return reject, nil
		}
		v := s.cols[len(s.cols)-1]
		if !sameTypes(f.in, []reflect.Type{v, v}) || !sameTypes(f.out, []reflect.Type{v}) {
			return reject, nil
		}
		return accept, s.cols
	case "repartition":
		if f.variadic {
			return open, nil
		}
		if !sameTypes(f.in, append([]reflect.Type{tInt}, s.cols...)) || !sameTypes(f.out, []reflect.Type{tInt}) {
			return reject, nil
		}
		return accept, s.cols
	case "writerfunc":
		if f.variadic {
			return open, nil
		}
		if len(f.in) != 3+len(s.cols) || f.in[0].Kind() != reflect.Int || f.in[2] != tErr || !sameTypes(f.out, []reflect.Type{tErr}) {
			return reject, nil
		}
		for i, c := range s.cols {
			if f.in[3+i] != reflect.SliceOf(c) {
				return reject, nil
			}
		}
		return accept, s.cols
	}
	panic(k)
}

type outcome struct {
	accepted bool
	slice    bigslice.Slice
	tcErr    *typecheck.Error
	other    interface{}
	line     int
	file     string
}

// call invokes a constructor at a known source line and classifies the result.
func call(f func() bigslice.Slice) (o outcome) {
	defer func() {
		if r := recover(); r != nil {
			if e, ok := r.(*typecheck.Error); ok {
				o.tcErr = e
			} else {
				o.other = r
			}
		}
	}()
	o.slice = f()
	o.accepted = true
	return
}

// Each constructor is invoked from exactly one line of this file; here() on
// the line before gives the expected attribution.
func here() (string, int) {
	_, file, line, _ := runtime.Caller(1)
	return file, line + 1
}

func apply(k string, s bigslice.Slice, fn interface{}) (o outcome) {
	var file string
	var line int
	switch k {
	case "map":
		file, line = here()
		o = call(func() bigslice.Slice { return bigslice.Map(s, fn) })
	case "filter":
		file, line = here()
		o = call(func() bigslice.Slice { return bigslice.Filter(s, fn) })
	case "flatmap":
		file, line = here()
		o = call(func() bigslice.Slice { return bigslice.Flatmap(s, fn) })
	case "fold":
		file, line = here()
		o = call(func() bigslice.Slice { return bigslice.Fold(s, fn) })
	case "reduce":
		file, line = here()
		o = call(func() bigslice.Slice { return bigslice.Reduce(s, fn) })
	case "repartition":
		file, line = here()
		o = call(func() bigslice.Slice { return bigslice.Repartition(s, fn) })
	case "writerfunc":
		file, line = here()
		o = call(func() bigslice.Slice { return bigslice.WriterFunc(s, fn) })
	case "readerfunc":
		file, line = here()
		o = call(func() bigslice.Slice { return bigslice.ReaderFunc(3, fn) })
	default:
		panic(k)
	}
	o.file, o.line = file, line
	return
}

func typesOf(s bigslice.Slice) []reflect.Type {
	t := make([]reflect.Type, s.NumOut())
	for i := range t {
		t[i] = s.Out(i)
	}
	return t
}

// judge compares outcome and expectation; it returns a violation text or "".
func judge(k, what string, v verdict, want []reflect.Type, wantShards int, o outcome) (string, string) {
	if o.other != nil {
		msg := fmt.Sprint(o.other)
		if len(msg) > 200 {
			msg = msg[:200]
		}
		return fmt.Sprintf("%s: %s: constructor panicked with %T (%s) instead of a *typecheck.Error", k, what, o.other, msg), k + ":non-typecheck-panic"
	}
	if v == open {
		return "", ""
	}
	if v == accept && !o.accepted {
		return fmt.Sprintf("%s: %s fits the documented schema but was rejected: %v", k, what, o.tcErr), k + ":rejects-valid"
	}
	if v == reject && o.accepted {
		return fmt.Sprintf("%s: %s does not fit the documented schema but was accepted", k, what), k + ":accepts-invalid"
	}
	if !o.accepted {
		if o.tcErr.File != o.file || o.tcErr.Line != o.line {
			return fmt.Sprintf("%s: %s: typecheck error attributed to %s:%d, the call is at %s:%d", k, what, o.tcErr.File, o.tcErr.Line, o.file, o.line), k + ":wrong-location"
		}
		return "", ""
	}
	if want != nil && !sameTypes(typesOf(o.slice), want) {
		return fmt.Sprintf("%s: %s: result has columns %v, documented %v", k, what, typesOf(o.slice), want), k + ":result-type"
	}
	if wantShards > 0 && o.slice.NumShard() != wantShards {
		return fmt.Sprintf("%s: %s: result has %d shards, documented %d", k, what, o.slice.NumShard(), wantShards), k + ":result-shards"
	}
	return "", ""
}

type violations struct {
	t    *testing.T
	rec  *vt.Rec
	test string
	seen map[string]bool
}

func (v *violations) report(text, sig string, replay interface{}) {
	if text == "" {
		return
	}
	if !v.seen[sig] {
		v.seen[sig] = true
		v.rec.Violation(v.test, sig, text, replay)
		v.t.Errorf("[%s] %s", sig, text)
	}
}

const tFuncs = "TestVerifC18FunctionConstructors"

func TestVerifC18FunctionConstructors(t *testing.T) {
	rec := vt.New("C18", "function-constructors",
		"complete cross product of a slice-type universe (1..3 columns over {int,string,float64,[]byte,struct{},[]int,named string,func()}, prefixes 1..3) and a function-signature universe (0..2 parameters in quick / 0..3 in thorough over {int,string,float64,[]byte,[]int,named string,interface{}}, 0..2 results over {int,string,bool,[]int,[]string,error}, optional leading context, variadic forms) for Map, Filter, Flatmap, Fold, Reduce, Repartition, WriterFunc, and of the signature universe extended with reader shapes for ReaderFunc; oracle: independent predicate per constructor transcribed from its documentation (DESIGN.md Appendix B); rejection must be a *typecheck.Error attributed to the harness call line; accepted results must have the documented column types and shard count; combinations the documentation leaves open are counted, not asserted; non-trivial = the documented schema accepts the combination; distinct by (constructor, slice type, signature)")
	if _, only := vt.Replays(tFuncs); only {
		return
	}
	vs := &violations{t, rec, tFuncs, map[string]bool{}}
	slices := sliceUniverse(vt.Thorough())
	sigs := sigUniverse(vt.Thorough())
	built := make([]bigslice.Slice, len(slices))
	for i, s := range slices {
		built[i] = s.build()
	}
	idx := 0
	for _, k := range []string{"map", "filter", "flatmap", "fold", "reduce", "repartition", "writerfunc"} {
		for fi, f := range sigs {
			idx++
			if !vt.Mine(idx) {
				continue
			}
			fn := f.fn()
			for si, s := range slices {
				v, want := expect(k, s, f)
				o := apply(k, built[si], fn)
				what := s.String() + " with " + f.String()
				class := k + ":reject"
				if v == accept {
					class = k + ":accept"
				} else if v == open {
					class = k + ":open"
				}
				rec.Case(v == accept, vt.Hash(k, si, fi), class)
				if v == accept && rec.WantSample(k) {
					rec.Sample(k, what)
				}
				text, sig := judge(k, what, v, want, s.shards, o)
				vs.report(text, sig, map[string]string{"constructor": k, "slice": s.String(), "func": f.String()})
			}
		}
	}
	// ReaderFunc: signatures func([ctx,] shard, state, cols...) results
	states := []reflect.Type{tInt, reflect.TypeOf((*int)(nil)), tString}
	colsU := []reflect.Type{tInts, tStrs, tInt, tBytes}
	outsU := tuples([]reflect.Type{tInt, tErr, tString, tInt64}, 3)
	firsts := []reflect.Type{tInt, tString, tInt64}
	for _, first := range firsts {
		for _, st := range states {
			for _, cols := range tuples(colsU, 2) {
				for _, out := range outsU {
					for _, ctx := range []bool{false, true} {
						for _, shape := range []int{0, 1, 2} { // 0: full, 1: no state and columns, 2: shard only + state
							idx++
							if !vt.Mine(idx) {
								continue
							}
							in := append([]reflect.Type{first, st}, cols...)
							switch shape {
							case 1:
								in = []reflect.Type{first}
							case 2:
								in = []reflect.Type{first, st}
							}
							f := sig{ctx, in, out, false}
							v := accept
							var want []reflect.Type
							if len(in) < 3 || in[0].Kind() != reflect.Int || !sameTypes(out, []reflect.Type{tInt, tErr}) {
								v = reject
							}
							if v == accept {
								for _, c := range in[2:] {
									if c.Kind() != reflect.Slice {
										v = reject
										break
									}
									want = append(want, c.Elem())
								}
							}
							if first == tInt64 && v == reject && len(in) >= 3 && sameTypes(out, []reflect.Type{tInt, tErr}) {
								v = reject // kind int64 is not kind int
							}
							o := apply("readerfunc", nil, f.fn())
							class := "readerfunc:reject"
							if v == accept {
								class = "readerfunc:accept"
							}
							rec.Case(v == accept, vt.Hash("readerfunc", f.String()), class)
							if v == accept && rec.WantSample("readerfunc") {
								rec.Sample("readerfunc", f.String())
							}
							text, s := judge("readerfunc", f.String(), v, want, 3, o)
							vs.report(text, s, map[string]string{"constructor": "readerfunc", "func": f.String()})
						}
					}
				}
			}
		}
	}
	rec.Exhaustive = true
}

const tSlices = "TestVerifC18SliceConstructors"

func TestVerifC18SliceConstructors(t *testing.T) {
	rec := vt.New("C18", "slice-constructors",
		"complete enumeration over the slice-type universe for Prefixed (prefix 0..4), Reshuffle, Reshard (counts 1..3), Head, Scan, all pairs (and a sample of triples) for Cogroup, Const over column values {[]int, []string, non-slice int, non-slice string, nil} x shard counts {0,1,2}, bigslice.Func over result lists drawn from {Slice, int, error} and FuncValue.Invocation over parameter/argument universes; same oracle conventions as function-constructors; non-trivial = accepted by the documented schema")
	if _, only := vt.Replays(tSlices); only {
		return
	}
	if vt.Shard() != 0 {
		return
	}
	vs := &violations{t, rec, tSlices, map[string]bool{}}
	slices := sliceUniverse(true)
	built := make([]bigslice.Slice, len(slices))
	for i, s := range slices {
		built[i] = s.build()
	}
	one := func(k, what string, v verdict, want []reflect.Type, shards int, file string, line int, o outcome) {
		o.file, o.line = file, line
		class := k + ":reject"
		if v == accept {
			class = k + ":accept"
		}
		rec.Case(v == accept, vt.Hash(k, what), class)
		if v == accept && rec.WantSample(k) {
			rec.Sample(k, what)
		}
		text, sig := judge(k, what, v, want, shards, o)
		vs.report(text, sig, map[string]string{"constructor": k, "what": what})
	}
	for si, s := range slices {
		sl := built[si]
		for p := 0; p <= 4; p++ {
			v := reject
			if p >= 1 && p <= len(s.cols) {
				v = accept
			}
			file, line := here()
			o := call(func() bigslice.Slice { return bigslice.Prefixed(sl, p) })
			one("prefixed", fmt.Sprintf("%s prefix %d", s, p), v, s.cols, s.shards, file, line, o)
			if o.accepted && o.slice.Prefix() != p {
				vs.report(fmt.Sprintf("prefixed: %s prefix %d: result reports prefix %d", s, p, o.slice.Prefix()), "prefixed:result-prefix", nil)
			}
		}
		kv := reject
		if keysOK(s) {
			kv = accept
		}
		file, line := here()
		o := call(func() bigslice.Slice { return bigslice.Reshuffle(sl) })
		one("reshuffle", s.String(), kv, s.cols, s.shards, file, line, o)
		for n := 1; n <= 3; n++ {
			file, line := here()
			o := call(func() bigslice.Slice { return bigslice.Reshard(sl, n) })
			one("reshard", fmt.Sprintf("%s to %d", s, n), kv, s.cols, n, file, line, o)
		}
		file, line = here()
		o = call(func() bigslice.Slice { return bigslice.Head(sl, 3) })
		one("head", s.String(), accept, s.cols, s.shards, file, line, o)
		scanFn := func(int, *sliceio.Scanner) error { return nil }
		file, line = here()
		o = call(func() bigslice.Slice { return bigslice.Scan(sl, scanFn) })
		one("scan", s.String(), accept, []reflect.Type{}, s.shards, file, line, o)
	}
	// Cogroup: all pairs, and triples of a sample
	cg := func(idx []int) {
		ins := make([]bigslice.Slice, len(idx))
		specs := make([]sliceSpec, len(idx))
		names := []string{}
		for i, k := range idx {
			ins[i], specs[i] = built[k], slices[k]
			names = append(names, slices[k].String())
		}
		v := accept
		p := specs[0].prefix
		shards := 0
		var want []reflect.Type
		if !keysOK(specs[0]) {
			v = reject
		} else {
			want = append(want, specs[0].cols[:p]...)
		}
		for _, s := range specs {
			if s.shards > shards {
				shards = s.shards
			}
			if v == reject {
				continue
			}
			if s.prefix != p || len(s.cols) < p || !sameTypes(s.cols[:p], specs[0].cols[:p]) {
				v = reject
				continue
			}
			for _, c := range s.cols[p:] {
				want = append(want, reflect.SliceOf(c))
			}
		}
		file, line := here()
		o := call(func() bigslice.Slice { return bigslice.Cogroup(ins...) })
		one("cogroup", strings.Join(names, " x "), v, want, shards, file, line, o)
		if o.accepted && v == accept && o.slice.Prefix() != p {
			vs.report(fmt.Sprintf("cogroup: %v: result reports prefix %d, documented %d", names, o.slice.Prefix(), p), "cogroup:result-prefix", nil)
		}
	}
	for i := range slices {
		cg([]int{i})
		for j := range slices {
			cg([]int{i, j})
			if i%7 == 0 && j%5 == 0 {
				for k := 0; k < len(slices); k += 9 {
					cg([]int{i, j, k})
				}
			}
		}
	}
	file, line := here()
	o := call(func() bigslice.Slice { return bigslice.Cogroup() })
	one("cogroup", "no slices", reject, nil, 0, file, line, o)
	// Const
	colVals := []interface{}{[]int{1, 2}, []string{"a", "b"}, 5, "x", nil}
	for n := 0; n <= 2; n++ {
		for _, cols := range [][]int{{}, {0}, {1}, {2}, {3}, {4}, {0, 1}, {0, 2}, {3, 0}, {0, 4}, {1, 1}} {
			var args []interface{}
			v := accept
			var want []reflect.Type
			if len(cols) == 0 || n < 1 {
				v = reject
			}
			for _, c := range cols {
				args = append(args, colVals[c])
				if c >= 2 {
					v = reject
				} else {
					want = append(want, reflect.TypeOf(colVals[c]).Elem())
				}
			}
			file, line := here()
			o := call(func() bigslice.Slice { return bigslice.Const(n, args...) })
			one("const", fmt.Sprintf("n=%d cols=%v", n, cols), v, want, n, file, line, o)
		}
	}
	// bigslice.Func
	resU := tuples([]reflect.Type{tSlice, tInt, tErr}, 2)
	for _, in := range tuples([]reflect.Type{tInt, tSlice, tInts}, 2) {
		for _, out := range resU {
			ft := reflect.FuncOf(in, out, false)
			fn := reflect.MakeFunc(ft, func([]reflect.Value) []reflect.Value { panic("never called") }).Interface()
			v := reject
			if len(out) == 1 && out[0] == tSlice {
				v = accept
			}
			file, line := here()
			o := call(func() bigslice.Slice { bigslice.Func(fn); return nil })
			one("func", ft.String(), v, nil, 0, file, line, o)
		}
	}
	file, line = here()
	o = call(func() bigslice.Slice { bigslice.Func(42); return nil })
	one("func", "not a function", reject, nil, 0, file, line, o)
	// FuncValue.Invocation
	// every kind of parameter type that can and that cannot hold nil
	paramU := []reflect.Type{tInt, tString, tInts, tIface, tSlice, reflect.TypeOf((*int)(nil)), reflect.TypeOf(map[string]int(nil)),
		reflect.TypeOf((func(int) int)(nil)), reflect.TypeOf((chan int)(nil)), reflect.TypeOf(unsafe.Pointer(nil)), tErr,
		reflect.TypeOf([2]int{}), reflect.TypeOf(struct{ A int }{})}
	seven := 7
	argU := []interface{}{1, "s", []int{1}, nil, &seven, map[string]int{"a": 1}, built[0], 2.5,
		func(x int) int { return x }, make(chan int), unsafe.Pointer(&seven), fmt.Errorf("e"), [2]int{1, 2}, struct{ A int }{3}}
	applied := 0
	for _, params := range tuples(paramU, 2) {
		ft := reflect.FuncOf(params, []reflect.Type{tSlice}, false)
		fv := bigslice.Func(reflect.MakeFunc(ft, func([]reflect.Value) []reflect.Value {
			applied++
			return []reflect.Value{reflect.ValueOf(&built[0]).Elem()}
		}).Interface())
		for nargs := 0; nargs <= 2; nargs++ {
			var rec2 func(args []interface{})
			rec2 = func(args []interface{}) {
				if len(args) < nargs {
					for _, a := range argU {
						rec2(append(append([]interface{}{}, args...), a))
					}
					return
				}
				v := accept
				if len(args) != len(params) {
					v = reject
				} else {
					for i, a := range args {
						pt := params[i]
						if a == nil {
							switch pt.Kind() {
							case reflect.Chan, reflect.Func, reflect.Interface, reflect.Map, reflect.Ptr, reflect.Slice, reflect.UnsafePointer:
							default:
								v = reject
							}
							continue
						}
						at := reflect.TypeOf(a)
						if pt.Kind() == reflect.Interface {
							if !at.Implements(pt) {
								v = reject
							}
						} else if at != pt {
							v = reject
						}
					}
				}
				file, line := here()
				o := call(func() bigslice.Slice { fv.Invocation("loc", args...); return nil })
				what := fmt.Sprintf("%v called with %d args %v", ft, len(args), argTypes(args))
				one("invocation", what, v, nil, 0, file, line, o)
				// Apply: "panics with a type error if argument type or arity do not match"; accepted
				// arguments reach the function (which returns a slice). Apply is not an operator
				// constructor, so the attribution of its error is not asserted, only its kind.
				before := applied
				ao := call(func() bigslice.Slice { return fv.Apply(args...) })
				if ao.tcErr != nil {
					ao.tcErr.File, ao.tcErr.Line = file, line
				}
				one("apply", what, v, nil, 0, file, line, ao)
				if ao.accepted && applied != before+1 {
					vs.report(fmt.Sprintf("apply: %s: accepted, but the function was called %d times", what, applied-before), "apply:not-called", nil)
				}
			}
			rec2(nil)
		}
	}
	rec.Exhaustive = true
}

func argTypes(args []interface{}) []string {
	out := make([]string, len(args))
	for i, a := range args {
		out[i] = fmt.Sprintf("%T", a)
	}
	return out
}
