//go:build verif
// +build verif

// Package c10 checks property C10: external sort, merge and reduce-merge are
// correct at any spill size.
package c10

import (
	"context"
	"encoding/json"
	"errors"
	"fmt"
	"os"
	"path/filepath"
	"reflect"
	"sort"
	"strings"
	"testing"

	"github.com/grailbio/bigslice/internal/defaultsize"
	"github.com/grailbio/bigslice/slicefunc"
	"github.com/grailbio/bigslice/sliceio"
	"github.com/grailbio/bigslice/sortio"
	"github.com/grailbio/bigslice/zzverif/vgen"
	"github.com/grailbio/bigslice/zzverif/vt"
	"pgregory.net/rapid"
)

func TestMain(m *testing.M) {
	code := m.Run()
	vt.Flush()
	os.Exit(code)
}

// Input is one input stream.
type Input struct {
	Rows        [][]int      `json:"rows"`
	Script      []vgen.Chunk `json:"script"`
	EOFWithRows bool         `json:"eof_with_rows"`
	ErrAt       int          `json:"err_at"` // -1: no error
}

// Case is one generated case.
type Case struct {
	Op          string      `json:"op"` // sort | merge | reduce
	Schema      vgen.Schema `json:"schema"`
	Inputs      []Input     `json:"inputs"`
	Dest        []int       `json:"dest"`
	Canary      int         `json:"canary"`
	SpillBatch  int         `json:"spill_batch"`
	SpillTarget int         `json:"spill_target"`
	Chunk       int         `json:"chunk"`
}

var errInjected = errors.New("verif: injected read error")

// value column types usable with a commutative, associative combiner
var reduceVals = []int{0, 2, 1, 7, 4} // int(sum) int64(xor) string(max) float64(max) uint16(sum)

func combinerFor(u int) interface{} {
	switch vgen.Universe[u].Name {
	case "int":
		return func(a, b int) int { return a + b }
	case "int64":
		return func(a, b int64) int64 { return a ^ b }
	case "string":
		return func(a, b string) string {
			if a > b {
				return a
			}
			return b
		}
	case "float64":
		return func(a, b float64) float64 {
			if a > b {
				return a
			}
			return b
		}
	case "uint16":
		return func(a, b uint16) uint16 { return a + b }
	}
	panic("no combiner for " + vgen.Universe[u].Name)
}

func fold(u int, a, b interface{}) interface{} {
	f := reflect.ValueOf(combinerFor(u))
	return f.Call([]reflect.Value{reflect.ValueOf(a), reflect.ValueOf(b)})[0].Interface()
}

func genCase(t *rapid.T) Case {
	var c Case
	c.Op = rapid.SampledFrom([]string{"sort", "sort", "merge", "reduce"}).Draw(t, "op")
	if c.Op == "reduce" {
		nk := rapid.IntRange(1, 3).Draw(t, "nkey")
		for i := 0; i < nk; i++ {
			c.Schema.Cols = append(c.Schema.Cols, rapid.IntRange(0, vgen.NumKeyable-1).Draw(t, "keycol"))
		}
		c.Schema.Cols = append(c.Schema.Cols, rapid.SampledFrom(reduceVals).Draw(t, "valcol"))
		c.Schema.Prefix = nk
	} else {
		c.Schema = vgen.GenSchema(t, 4, true, true)
	}
	c.Canary = rapid.SampledFrom([]int{1, 2, 3, 5, 8, 256}).Draw(t, "canary")
	c.SpillBatch = rapid.SampledFrom([]int{1, 2, 3, 128}).Draw(t, "spillbatch")
	c.Chunk = rapid.SampledFrom([]int{1, 2, 4, 128}).Draw(t, "chunk")
	c.SpillTarget = rapid.SampledFrom([]int{1, 16, 100, 1000, 1 << 20}).Draw(t, "spilltarget")
	nin := 1
	if c.Op != "sort" {
		nin = rapid.IntRange(0, 5).Draw(t, "ninputs")
	}
	card := rapid.SampledFrom([]int{1, 2, 5, 24}).Draw(t, "card")
	maxRows := 60
	if c.Op == "sort" {
		maxRows = 300
	}
	ncol := len(c.Schema.Cols)
	for i := 0; i < nin; i++ {
		var in Input
		n := vgen.SizeGen(maxRows).Draw(t, "nrows")
		in.Rows = vgen.GenRows(t, ncol, n, card)
		in.Script = vgen.GenScript(t, c.Op == "sort", 140)
		in.EOFWithRows = rapid.Bool().Draw(t, "eofwithrows")
		in.ErrAt = -1
		if rapid.IntRange(0, 5).Draw(t, "haserr") == 0 {
			in.ErrAt = rapid.IntRange(0, n).Draw(t, "errat")
		}
		c.Inputs = append(c.Inputs, in)
	}
	c.Dest = vgen.GenDestSizes(t, 200)
	return c
}

// prepare sorts (and for reduce: combines) the rows of each input, as the
// operation's precondition demands.
func (c *Case) prepared() [][]vgen.Row {
	out := make([][]vgen.Row, len(c.Inputs))
	s := c.Schema
	for i, in := range c.Inputs {
		rows := s.Rows(in.Rows)
		if c.Op == "sort" {
			out[i] = rows
			continue
		}
		sort.SliceStable(rows, func(a, b int) bool { return s.LessRow(rows[a], rows[b]) })
		if c.Op == "reduce" {
			v := len(s.Cols) - 1
			var uniq []vgen.Row
			for _, r := range rows {
				if len(uniq) > 0 && s.KeyOf(uniq[len(uniq)-1]) == s.KeyOf(r) {
					uniq[len(uniq)-1][v] = fold(s.Cols[v], uniq[len(uniq)-1][v], r[v])
					continue
				}
				uniq = append(uniq, append(vgen.Row{}, r...))
			}
			rows = uniq
		}
		out[i] = rows
	}
	return out
}

func spillDirs() []string {
	m, _ := filepath.Glob(filepath.Join(os.TempDir(), "spiller-*"))
	return m
}

func runCase(c Case) (err error) {
	defer func() {
		if r := recover(); r != nil {
			_, stack := vt.PanicSig(r)
			err = fmt.Errorf("panic: %v\n%s", r, stack)
		}
	}()
	oldCanary := defaultsize.SortCanary
	oldBatch := sliceio.SpillBatchSize
	defaultsize.SortCanary = c.Canary
	sliceio.SpillBatchSize = c.SpillBatch
	oldChunk := sortio.VerifSetChunk(c.Chunk)
	defer func() {
		defaultsize.SortCanary = oldCanary
		sliceio.SpillBatchSize = oldBatch
		sortio.VerifSetChunk(oldChunk)
	}()
	if d := spillDirs(); len(d) > 0 {
		for _, x := range d {
			os.RemoveAll(x)
		}
	}

	s := c.Schema
	ctx := context.Background()
	prep := c.prepared()
	var all []vgen.Row
	wantErr := false
	readers := make([]sliceio.Reader, len(prep))
	chunkReaders := make([]*vgen.ChunkReader, len(prep))
	for i, rows := range prep {
		cr := vgen.NewChunkReader(s.FrameOfRows(rows), c.Inputs[i].Script, c.Inputs[i].EOFWithRows)
		if c.Inputs[i].ErrAt >= 0 && c.Inputs[i].ErrAt <= len(rows) {
			cr.ErrAt = c.Inputs[i].ErrAt
			cr.Err = errInjected
			wantErr = true
		}
		readers[i] = cr
		chunkReaders[i] = cr
		all = append(all, rows...)
	}
	total := len(all)

	var r sliceio.Reader
	switch c.Op {
	case "sort":
		var e error
		r, e = sortio.SortReader(ctx, c.SpillTarget, s.Type(), readers[0])
		if d := spillDirs(); len(d) > 0 {
			return fmt.Errorf("spill directories outlive SortReader's return: %v", d)
		}
		if e != nil {
			if wantErr && isInjected(e) {
				return nil
			}
			return fmt.Errorf("SortReader failed: %v", e)
		}
	case "merge":
		var e error
		r, e = sortio.NewMergeReader(ctx, s.Type(), readers)
		if e != nil {
			if wantErr && isInjected(e) {
				return nil
			}
			return fmt.Errorf("NewMergeReader failed: %v", e)
		}
	case "reduce":
		fn, ok := slicefunc.Of(combinerFor(s.Cols[len(s.Cols)-1]))
		if !ok {
			return fmt.Errorf("harness: slicefunc.Of failed")
		}
		r = sortio.Reduce(s.Type(), "verif", readers, fn)
	}
	res, contract := s.Drain(ctx, r, c.Dest, 10*total+100)
	if contract != nil {
		return contract
	}
	if wantErr {
		if res.Err == nil {
			return fmt.Errorf("an input failed with a read error after its row %d, but the %s reader reported a clean end of stream after %d rows", errPos(c), c.Op, len(res.Rows))
		}
		if !isInjected(res.Err) {
			return fmt.Errorf("an input failed with the injected read error, the %s reader reported a different error: %v", c.Op, res.Err)
		}
		// rows delivered before the error must still be sane
		if c.Op != "reduce" {
			if e := subMultiset(res.Rows, all); e != nil {
				return fmt.Errorf("before the read error was reported: %v", e)
			}
			if e := sortedBy(s, res.Rows); e != nil {
				return e
			}
		}
		return nil
	}
	if res.Err != nil {
		return fmt.Errorf("%s reader failed without any input failing: %v", c.Op, res.Err)
	}
	switch c.Op {
	case "sort", "merge":
		if e := vgen.SameMultiset(res.Rows, all); e != nil {
			return fmt.Errorf("%s output is not a permutation of the input: %v", c.Op, e)
		}
		if e := sortedBy(s, res.Rows); e != nil {
			return e
		}
	case "reduce":
		v := len(s.Cols) - 1
		want := map[string]vgen.Row{}
		for _, row := range all {
			k := s.KeyOf(row)
			if w, ok := want[k]; ok {
				w[v] = fold(s.Cols[v], w[v], row[v])
			} else {
				want[k] = append(vgen.Row{}, row...)
			}
		}
		seen := map[string]bool{}
		for _, row := range res.Rows {
			k := s.KeyOf(row)
			if seen[k] {
				return fmt.Errorf("reduce emitted key %s more than once", k)
			}
			seen[k] = true
			w, ok := want[k]
			if !ok {
				return fmt.Errorf("reduce emitted a key that is not in the input: %v", row)
			}
			if !vgen.EqRow(row, w) {
				return fmt.Errorf("reduce emitted %v for key %s, fold of the inputs is %v", row, k, w)
			}
		}
		if len(seen) != len(want) {
			return fmt.Errorf("reduce emitted %d keys, input has %d distinct keys", len(seen), len(want))
		}
	}
	return nil
}

func errPos(c Case) int {
	for _, in := range c.Inputs {
		if in.ErrAt >= 0 {
			return in.ErrAt
		}
	}
	return -1
}

func isInjected(e error) bool {
	return e == errInjected || strings.Contains(e.Error(), errInjected.Error())
}

func sortedBy(s vgen.Schema, rows []vgen.Row) error {
	for i := 1; i < len(rows); i++ {
		if s.LessRow(rows[i], rows[i-1]) {
			return fmt.Errorf("output rows %d and %d are out of key order: %v then %v", i-1, i, rows[i-1], rows[i])
		}
	}
	return nil
}

func subMultiset(got, of []vgen.Row) error {
	m := map[string]int{}
	for _, r := range of {
		m[vgen.RowKey(r)]++
	}
	for _, r := range got {
		k := vgen.RowKey(r)
		if m[k] == 0 {
			return fmt.Errorf("row %v was delivered but is not (that often) in the input", r)
		}
		m[k]--
	}
	return nil
}

func classify(c Case) (classes []string, nontrivial bool) {
	classes = append(classes, "op:"+c.Op)
	nonEmpty, total := 0, 0
	hasErr := false
	for _, in := range c.Inputs {
		if len(in.Rows) > 0 {
			nonEmpty++
		}
		total += len(in.Rows)
		if in.ErrAt >= 0 {
			hasErr = true
		}
	}
	if hasErr {
		classes = append(classes, "read-error-injected")
	}
	if total == 0 {
		classes = append(classes, "all-empty")
	}
	if c.Schema.Prefix > 1 {
		classes = append(classes, "prefix>1")
	}
	switch c.Op {
	case "sort":
		runs := 0
		if c.Canary > 0 {
			runs = (total + c.Canary - 1) / c.Canary // lower bound: runs grow, so this over-counts only when the run length was raised
		}
		if total > c.Canary {
			classes = append(classes, "multiple-runs")
			nontrivial = true
		}
		_ = runs
	default:
		if nonEmpty >= 2 {
			classes = append(classes, ">=2-nonempty-streams")
			nontrivial = true
		}
		if len(c.Inputs) == 0 {
			classes = append(classes, "zero-streams")
		}
	}
	return
}

func sig(c Case, e error) string {
	msg := e.Error()
	switch {
	case strings.HasPrefix(msg, "panic"):
		return c.Op + ":panic"
	case strings.Contains(msg, "clean end of stream"):
		return c.Op + ":error-swallowed"
	case strings.Contains(msg, "spill directories"):
		return c.Op + ":spill-leak"
	case strings.Contains(msg, "permutation") || strings.Contains(msg, "emitted"):
		return c.Op + ":wrong-rows"
	case strings.Contains(msg, "out of key order"):
		return c.Op + ":unsorted"
	}
	return c.Op + ":other"
}

const testName = "TestVerifC10SortMergeReduce"

func TestVerifC10SortMergeReduce(t *testing.T) {
	rec := vt.New("C10", "sort-merge-reduce",
		"rapid: op in {SortReader, NewMergeReader, Reduce}; schema with key prefix 1..3 over the type universe; 0..5 input streams (sorted/combined as the operation requires) of 0..300 rows with key cardinality 1..24, delivered through chunking readers (arbitrary chunk sizes, EOF with or after the last rows, zero-row reads for the sorting reader only, optional injected read error at any position); knobs: sort canary {1,2,3,5,8,256}, spill batch {1,2,3,128}, spill target 1 byte..1MiB, reduce buffer {1,2,4,128}; destination-size schedules; oracle: sorted permutation / sorted union / one folded row per key, injected error reported (never EOF), no spiller directory left after SortReader returns, Reader contract. non-trivial = sort with more rows than the canary (>= 2 runs) or merge/reduce with >= 2 non-empty streams; distinct by case hash")
	docs, only := vt.Replays(testName)
	for _, d := range docs {
		var c Case
		if err := json.Unmarshal(d.Case, &c); err != nil {
			t.Fatal(err)
		}
		_, nt := classify(c)
		rec.Case(nt, vt.Hash(string(d.Case)), "replay")
		if err := runCase(c); err != nil {
			rec.Violation(testName, sig(c, err), err.Error(), c)
			t.Errorf("replay: %v", err)
		}
	}
	if only || t.Failed() {
		return
	}
	defer rec.Commit(testName)
	rapid.Check(t, func(rt *rapid.T) {
		c := genCase(rt)
		b, _ := json.Marshal(c)
		classes, nt := classify(c)
		rec.Case(nt, vt.Hash(string(b)), classes...)
		if nt && rec.WantSample(c.Op) {
			rec.Sample(c.Op, summary(c))
		}
		if err := runCase(c); err != nil {
			rec.Pending(sig(c, err), err.Error(), c)
			rt.Fatalf("%v", err)
		}
	})
}

func summary(c Case) interface{} {
	var ins []map[string]interface{}
	for _, in := range c.Inputs {
		ins = append(ins, map[string]interface{}{"rows": len(in.Rows), "script": in.Script, "eof_with_rows": in.EOFWithRows, "err_at": in.ErrAt})
	}
	return map[string]interface{}{"op": c.Op, "columns": c.Schema.Names(), "prefix": c.Schema.Prefix, "inputs": ins, "dest": c.Dest,
		"canary": c.Canary, "spill_batch": c.SpillBatch, "spill_target": c.SpillTarget, "chunk": c.Chunk}
}
