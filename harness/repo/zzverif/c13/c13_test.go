//go:build verif
// +build verif

// Package c13 checks property C13: caching is transparent, complete-or-absent,
// and skips recomputation.
package c13

import (
	"bytes"
	"context"
	"encoding/json"
	"fmt"
	"io/ioutil"
	"os"
	"path/filepath"
	"sort"
	"strings"
	"testing"
	"time"

	"github.com/grailbio/base/compress/zstd"
	"github.com/grailbio/bigslice/sliceio"
	"github.com/grailbio/bigslice/zzverif/progen"
	"github.com/grailbio/bigslice/zzverif/runner"
	"github.com/grailbio/bigslice/zzverif/vfault"
	"github.com/grailbio/bigslice/zzverif/vt"
	"pgregory.net/rapid"
)

func TestMain(m *testing.M) {
	runner.Quiet()
	code := m.Run()
	vt.Flush()
	os.Exit(code)
}

// Case is one caching scenario.
type Case struct {
	Spec  progen.Spec   `json:"spec"`
	Exec  string        `json:"exec"`
	Mask  int           `json:"mask"`  // which shard files of each cache node pre-exist (bit s of Mask+node index)
	Fault *vfault.Fault `json:"fault"` // file operation failed during the first run
}

var sessions = map[string]*runner.Session{}

// excluded counts cases of a recorded known finding that were set aside (set by the test).
var excluded = func(sig string) {}

func sessionFor(ex string) *runner.Session {
	if s := sessions[ex]; s != nil {
		return s
	}
	cfg := runner.Config{Exec: ex, Parallelism: 4}
	if ex == "bigmachine" {
		cfg.Machineprocs = 2
	}
	s := runner.Start(cfg)
	sessions[ex] = s
	return s
}

type runOut struct {
	rows    []progen.Row
	err     error
	streams map[int][]*progen.Stream // observer node -> streams
}

func runOnce(sess *runner.Session, spec progen.Spec, base string) runOut {
	spec.RunID = runner.NewRunID()
	spec.CacheBase = base
	defer progen.DropEnv(spec.RunID)
	var out runOut
	ctx := context.Background()
	ok := runner.WithTimeout(120*time.Second, func() {
		res, e := sess.Run(ctx, &spec)
		if e != nil {
			out.err = e
			return
		}
		out.rows, out.err = runner.Scan(ctx, res, spec.Nodes[spec.Root()].Schema)
		res.Discard(ctx)
	})
	if !ok {
		out.err = fmt.Errorf("wedged: run did not finish within 120s")
	}
	out.streams = map[int][]*progen.Stream{}
	env := progen.EnvOf(spec.RunID)
	for id, n := range spec.Nodes {
		if n.Op == "writerfunc" {
			out.streams[id] = env.StreamsOf(id)
		}
	}
	return out
}

func cachePath(base string, n *progen.Node, shard int) string {
	return fmt.Sprintf("%s%s-%04d-of-%04d", base, n.CachePrefix, shard, n.Shards)
}

// readCacheFile decodes a shard file independently of the cache package.
func readCacheFile(path string, schema progen.Schema) ([]progen.Row, error) {
	f, err := os.Open(path)
	if err != nil {
		return nil, err
	}
	defer f.Close()
	zr, err := zstd.NewReader(f)
	if err != nil {
		return nil, err
	}
	defer zr.Close()
	r := sliceio.NewDecodingReader(zr)
	res, contract := progen.Drain(context.Background(), r, schema, []int{64}, 1<<20)
	if contract != nil {
		return nil, contract
	}
	return res.Rows, res.Err
}

// zstdInputReuse recognises the recorded known finding "cache files written through the cgo zstd
// binding can be corrupt": the file is a complete, valid zstd stream whose decompressed bytes have
// exactly the length of the row stream the computation wrote but differ from it (DataDog/zstd
// v1.4.1 compresses with ZSTD_compressContinue, which keeps referencing earlier input, while gob
// reuses its output buffer). st is the complete observer stream of the computation that wrote the file.
func zstdInputReuse(path string, schema progen.Schema, st *progen.Stream) bool {
	if st == nil {
		return false
	}
	f, err := os.Open(path)
	if err != nil {
		return false
	}
	defer f.Close()
	zr, err := zstd.NewReader(f)
	if err != nil {
		return false
	}
	defer zr.Close()
	raw, err := ioutil.ReadAll(zr)
	if err != nil {
		return false
	}
	var good bytes.Buffer
	enc := sliceio.NewEncodingWriter(&good)
	pos := 0
	for _, k := range st.Sizes {
		if pos+k > len(st.Rows) {
			return false
		}
		if err := enc.Write(context.Background(), progen.FrameOf(schema, st.Rows[pos:pos+k])); err != nil {
			return false
		}
		pos += k
	}
	return len(raw) == good.Len() && !bytes.Equal(raw, good.Bytes())
}

func bagEq(s progen.Schema, a, b []progen.Row) bool {
	m := map[string]int{}
	for _, r := range a {
		m[progen.CanonRow(s, r)]++
	}
	for _, r := range b {
		m[progen.CanonRow(s, r)]--
	}
	for _, n := range m {
		if n != 0 {
			return false
		}
	}
	return true
}

type cacheNode struct {
	id, obs int
	n       *progen.Node
	// private: the observer upstream is consumed by the cache node only, so that it runs exactly when
	// the cache node computes the shard (a shared observer also runs for its other consumers)
	private bool
}

func cacheNodes(spec *progen.Spec) []cacheNode {
	consumers := make([]int, len(spec.Nodes))
	for _, n := range spec.Nodes {
		for _, k := range n.In {
			consumers[k]++
		}
	}
	var out []cacheNode
	for id := range spec.Nodes {
		n := &spec.Nodes[id]
		if n.Op == "cache" || n.Op == "cachepartial" {
			out = append(out, cacheNode{id, n.In[0], n, spec.Nodes[n.In[0]].Op == "writerfunc" && consumers[n.In[0]] == 1})
		}
	}
	return out
}

func completeStream(streams []*progen.Stream, shard int) *progen.Stream {
	for _, s := range streams {
		if s.Shard == shard && s.Ends > 0 && s.End == "EOF" {
			return s
		}
	}
	return nil
}

// completeStreams returns every complete computation of the shard (a task may run more than once).
func completeStreams(streams []*progen.Stream, shard int) (out []*progen.Stream) {
	for _, s := range streams {
		if s.Shard == shard && s.Ends > 0 && s.End == "EOF" {
			out = append(out, s)
		}
	}
	return out
}

func anyStream(streams []*progen.Stream, shard int) bool {
	for _, s := range streams {
		if s.Shard == shard {
			return true
		}
	}
	return false
}

// runCase executes the scenario in dir (a fresh directory); it returns the
// trace of underlying file operations of the first run.
func runCase(c Case, dir string) (err error, counts map[string]int) {
	defer func() {
		if r := recover(); r != nil {
			_, stack := vt.PanicSig(r)
			err = fmt.Errorf("panic: %v\n%s", r, stack)
		}
	}()
	spec := c.Spec
	if e := progen.Annotate(&spec); e != nil {
		return fmt.Errorf("harness: %v", e), nil
	}
	ref, e := progen.Eval(&spec, nil)
	if e != nil {
		return fmt.Errorf("harness: %v", e), nil
	}
	rootStage := ref.Stages[spec.Root()]
	sess := sessionFor(c.Exec)
	nodes := cacheNodes(&spec)
	vfault.Set(nil)
	// 0. a clean full run into a side directory provides complete shard files to pre-populate from
	side := filepath.Join(dir, "side")
	os.MkdirAll(side, 0777)
	full := runOnce(sess, spec, side)
	if full.err != nil {
		return fmt.Errorf("failure-free run with cold caches failed: %v", full.err), nil
	}
	if e := progen.CheckRows(rootStage, full.rows); e != nil {
		return fmt.Errorf("with cold caches the rows differ from the uncached reference: %v", e), nil
	}
	work := filepath.Join(dir, "work")
	os.MkdirAll(work, 0777)
	// what each pre-existing file holds
	content := map[string][]progen.Row{}
	for k, cn := range nodes {
		for s := 0; s < cn.n.Shards; s++ {
			src := cachePath(side, cn.n, s)
			rows, rerr := readCacheFile(src, cn.n.Schema)
			if _, serr := os.Stat(src); serr != nil {
				continue // e.g. a shard never read to its end (Head downstream)
			}
			if rerr != nil {
				if zstdInputReuse(src, cn.n.Schema, completeStream(full.streams[cn.obs], s)) {
					excluded("zstd-cgo-input-reuse")
					continue // known finding: do not pre-populate from a file corrupted by the dependency
				}
				return fmt.Errorf("after a failure-free run the cache file of node %d shard %d does not decode: %v", cn.id, s, rerr), nil
			}
			if (c.Mask>>uint((s+k)%8))&1 == 1 {
				b, _ := ioutil.ReadFile(src)
				dst := cachePath(work, cn.n, s)
				ioutil.WriteFile(dst, b, 0666)
				content[dst] = rows
			}
		}
	}
	preexisting := func(cn cacheNode, s int) bool { _, ok := content[cachePath(work, cn.n, s)]; return ok }
	allPre := func(cn cacheNode) bool {
		for s := 0; s < cn.n.Shards; s++ {
			if !preexisting(cn, s) {
				return false
			}
		}
		return true
	}
	// 1. first run, possibly with a failing file operation
	base := vfault.Path(work)
	if c.Fault != nil {
		vfault.Set([]vfault.Fault{*c.Fault})
	}
	first := runOnce(sess, spec, base)
	counts = vfault.Counts()
	fired := vfault.Fired()
	readPaths := vfault.ReadPaths()
	vfault.Set(nil)
	if first.err != nil && strings.Contains(first.err.Error(), "wedged") {
		delete(sessions, c.Exec)
		return first.err, counts
	}
	if first.err == nil {
		if e := progen.CheckRows(rootStage, first.rows); e != nil {
			return fmt.Errorf("with pre-existing shard files (mask %b, fault %v) the rows differ from the uncached reference: %v", c.Mask, c.Fault, e), counts
		}
	} else if c.Fault == nil || fired == 0 {
		return fmt.Errorf("run with pre-existing shard files (mask %b) failed without any injected fault: %v", c.Mask, first.err), counts
	}
	// cached shards must not be recomputed (when the run was not disturbed)
	if c.Fault == nil {
		for _, cn := range nodes {
			for s := 0; s < cn.n.Shards; s++ {
				use := preexisting(cn, s)
				if cn.n.Op == "cache" {
					use = allPre(cn)
				}
				if use && cn.private && anyStream(first.streams[cn.obs], s) {
					return fmt.Errorf("%s node %d: shard %d was present in the cache (all present: %v), yet its upstream computation ran", cn.n.Op, cn.id, s, allPre(cn)), counts
				}
			}
		}
	}
	// Cache is all-or-nothing: unless every shard file is present, no shard may be served from a file.
	// (Local executor only: there the slice is constructed once, before anything is written. On
	// bigmachine a worker that compiles the invocation after the missing shards have been written
	// by other workers legitimately finds the cache complete.)
	for _, cn := range nodes {
		if cn.n.Op != "cache" || allPre(cn) || c.Exec != "local" {
			continue
		}
		for s := 0; s < cn.n.Shards; s++ {
			if p := cachePath(work, cn.n, s); preexisting(cn, s) && readPaths[p] > 0 {
				return fmt.Errorf("cache node %d: not all of its %d shard files were present, yet the pre-existing file of shard %d was read (%d reads): Cache may use cached shards only if all shards are present", cn.id, cn.n.Shards, s, readPaths[p]), counts
			}
		}
	}
	// 2. whatever happened: every file under the prefix is complete and holds exactly its shard
	for _, cn := range nodes {
		for s := 0; s < cn.n.Shards; s++ {
			p := cachePath(work, cn.n, s)
			if _, serr := os.Stat(p); serr != nil {
				continue
			}
			rows, rerr := readCacheFile(p, cn.n.Schema)
			if rerr != nil {
				if zstdInputReuse(p, cn.n.Schema, completeStream(first.streams[cn.obs], s)) {
					excluded("zstd-cgo-input-reuse")
					os.Remove(p) // known finding: continue behind it
					continue
				}
				return fmt.Errorf("%s node %d shard %d: after a run with fault %v (run error: %v) a shard file exists that does not decode completely: %v", cn.n.Op, cn.id, s, c.Fault, first.err, rerr), counts
			}
			if sts := completeStreams(first.streams[cn.obs], s); len(sts) > 0 {
				// the file must hold the rows of one of the complete computations of the shard (a task that
				// was re-run after a fault may legitimately have produced other rows, e.g. under Head)
				match := false
				for _, st := range sts {
					if len(rows) == len(st.Rows) && bagEq(cn.n.Schema, rows, st.Rows) {
						match = true
					}
				}
				if !match {
					return fmt.Errorf("%s node %d shard %d: the shard file holds %d rows, which are the rows of none of the %d complete computations of that shard (the first produced %d rows; fault %v)", cn.n.Op, cn.id, s, len(rows), len(sts), len(sts[0].Rows), c.Fault), counts
				}
			} else if pre, ok := content[p]; ok {
				if !bagEq(cn.n.Schema, rows, pre) {
					return fmt.Errorf("%s node %d shard %d: a pre-existing shard file changed although its shard was not recomputed to the end", cn.n.Op, cn.id, s), counts
				}
			} else if cn.private && anyStream(first.streams[cn.obs], s) {
				return fmt.Errorf("%s node %d shard %d: a shard file exists although the computation of that shard never reached its end (fault %v, run error %v)", cn.n.Op, cn.id, s, c.Fault, first.err), counts
			}
		}
	}
	// a shard whose computation ran to its end in an undisturbed, successful run has been written
	if c.Fault == nil && first.err == nil {
		for _, cn := range nodes {
			for s := 0; s < cn.n.Shards; s++ {
				if _, serr := os.Stat(cachePath(work, cn.n, s)); serr != nil && cn.private && completeStream(first.streams[cn.obs], s) != nil {
					return fmt.Errorf("%s node %d shard %d: the run succeeded and computed the shard to its end, yet no shard file was written (a later run cannot read it from the cache)", cn.n.Op, cn.id, s), counts
				}
			}
		}
	}
	// 3. a clean run afterwards is correct and uses what is cached
	present := map[string]bool{}
	for _, cn := range nodes {
		for s := 0; s < cn.n.Shards; s++ {
			if _, serr := os.Stat(cachePath(work, cn.n, s)); serr == nil {
				present[cachePath(work, cn.n, s)] = true
			}
		}
	}
	second := runOnce(sess, spec, base)
	if second.err != nil {
		return fmt.Errorf("a clean run after the first one (fault %v, first error %v) failed: %v", c.Fault, first.err, second.err), counts
	}
	if e := progen.CheckRows(rootStage, second.rows); e != nil {
		return fmt.Errorf("a clean run reading the caches left by the first one (fault %v) produced rows that differ from the uncached reference: %v", c.Fault, e), counts
	}
	for _, cn := range nodes {
		all := true
		for s := 0; s < cn.n.Shards; s++ {
			if !present[cachePath(work, cn.n, s)] {
				all = false
			}
		}
		for s := 0; s < cn.n.Shards; s++ {
			use := present[cachePath(work, cn.n, s)]
			if cn.n.Op == "cache" {
				use = all
			}
			if use && cn.private && anyStream(second.streams[cn.obs], s) {
				return fmt.Errorf("%s node %d: shard %d is cached (all shards cached: %v), yet a later run executed its upstream computation", cn.n.Op, cn.id, s, all), counts
			}
		}
	}
	// 4. ReadCache over the files that now exist: the same program with the caching node replaced by
	// ReadCache(type, shards, prefix). With every shard file present it must succeed with the reference
	// rows and without running the upstream computation; with a file missing it may fail ("fail if it
	// does not exist") but never succeeds with other rows.
	for _, cn := range nodes {
		if cn.n.Schema.Prefix != 1 {
			continue // ReadCache yields prefix 1; a different prefix would change the meaning of the consumers
		}
		all := true
		for s := 0; s < cn.n.Shards; s++ {
			if _, serr := os.Stat(cachePath(work, cn.n, s)); serr != nil {
				all = false
			}
		}
		rspec := spec
		rspec.Nodes = append([]progen.Node(nil), spec.Nodes...)
		rspec.Nodes[cn.id].Op = "readcache"
		if e := progen.Annotate(&rspec); e != nil {
			continue
		}
		third := runOnce(sess, rspec, base)
		if third.err != nil {
			if strings.Contains(third.err.Error(), "wedged") {
				delete(sessions, c.Exec)
				return fmt.Errorf("readcache in place of %s node %d: %v", cn.n.Op, cn.id, third.err), counts
			}
			if all {
				return fmt.Errorf("readcache in place of %s node %d: all %d shard files exist, yet the run failed: %v", cn.n.Op, cn.id, cn.n.Shards, third.err), counts
			}
			continue
		}
		if e := progen.CheckRows(rootStage, third.rows); e != nil {
			return fmt.Errorf("readcache in place of %s node %d (all files present: %v): rows differ from the uncached reference: %v", cn.n.Op, cn.id, all, e), counts
		}
		if cn.private {
			for s := 0; s < cn.n.Shards; s++ {
				if anyStream(third.streams[cn.obs], s) {
					return fmt.Errorf("readcache in place of %s node %d: the upstream computation of shard %d ran", cn.n.Op, cn.id, s), counts
				}
			}
		}
		// ... and with one of the files taken away: an error, or (if that shard is never needed) still the reference rows
		if all {
			gone := cachePath(work, cn.n, c.Mask%cn.n.Shards)
			saved, rerr := ioutil.ReadFile(gone)
			if rerr != nil {
				continue
			}
			os.Remove(gone)
			fourth := runOnce(sess, rspec, base)
			ioutil.WriteFile(gone, saved, 0666)
			if fourth.err != nil && strings.Contains(fourth.err.Error(), "wedged") {
				delete(sessions, c.Exec)
				return fmt.Errorf("readcache in place of %s node %d with a shard file removed: %v", cn.n.Op, cn.id, fourth.err), counts
			}
			if fourth.err == nil {
				if e := progen.CheckRows(rootStage, fourth.rows); e != nil {
					return fmt.Errorf("readcache in place of %s node %d with the file of shard %d removed: the run succeeded with rows that differ from the reference: %v", cn.n.Op, cn.id, c.Mask%cn.n.Shards, e), counts
				}
			}
		}
	}
	return nil, counts
}

var cacheOps = []string{"map", "filter", "flatmap", "fold", "head", "reduce", "cogroup", "reshuffle", "repartition", "reshard", "prefixed", "cache", "cache", "cachepartial", "cachepartial", "source"}

func hasCache(spec *progen.Spec) bool { return len(cacheNodes(spec)) > 0 }

func sigOf(err error) string {
	m := err.Error()
	switch {
	case strings.Contains(m, "wedged"):
		return "cache:wedged"
	case strings.Contains(m, "panic"):
		return "cache:panic"
	case strings.Contains(m, "does not decode"):
		return "cache:partial-file"
	case strings.Contains(m, "never reached its end"):
		return "cache:file-from-incomplete-computation"
	case strings.Contains(m, "upstream computation"):
		return "cache:recomputed"
	case strings.Contains(m, "differ from the uncached"):
		return "cache:rows"
	case strings.Contains(m, "shard file holds"):
		return "cache:wrong-file-content"
	}
	return "cache:other"
}

const testName = "TestVerifC13Cache"

func TestVerifC13Cache(t *testing.T) {
	rec := vt.New("C13", "cache",
		"rapid: progen programs with Cache / CachePartial at any position (after sources, in the middle, before and after shuffles, under Head which stops reading early), each with an observer directly upstream; a random subset of shard files pre-exists (copied from a clean run); local executor or bigmachine test system; the first run is executed fault-free to learn its trace of underlying file operations (through the vfault:// file implementation) and then re-run from the same initial files once for EVERY (operation kind, ordinal) of that trace with that operation failing (writes also short); oracle: rows equal the uncached reference whenever a run succeeds; cached shards (Cache: only if all shards are present) are not recomputed; on the local executor a Cache with an incomplete set of shard files reads none of them; after ANY run every file under the prefix decodes completely to exactly the rows the writing computation produced, no file exists for a shard whose computation did not reach its end; a clean run afterwards is correct and skips what is cached; evaluations = scenarios incl. fault variants; non-trivial = a fault fired or a proper non-empty subset pre-existed; distinct by (program, executor, mask, fault)")
	defer func() {
		for k, s := range sessions {
			s.Close()
			delete(sessions, k)
		}
	}()
	dir := os.Getenv("VERIF_SCRATCH")
	if dir == "" {
		dir = os.TempDir()
	}
	n := 0
	fresh := func() string {
		n++
		d := filepath.Join(dir, fmt.Sprintf("c13-%d", n))
		os.RemoveAll(d)
		os.MkdirAll(d, 0777)
		return d
	}
	docs, only := vt.Replays(testName)
	for _, d := range docs {
		var c Case
		if err := json.Unmarshal(d.Case, &c); err != nil {
			t.Fatal(err)
		}
		rec.Case(true, vt.Hash(string(d.Case)), "replay")
		dd := fresh()
		err, _ := runCase(c, dd)
		os.RemoveAll(dd)
		if err != nil {
			rec.Violation(testName, sigOf(err), err.Error(), c)
			t.Errorf("replay: %v", err)
		}
	}
	if only || t.Failed() {
		return
	}
	defer rec.Commit(testName)
	excluded = rec.Exclude
	rapid.Check(t, func(rt *rapid.T) {
		var spec *progen.Spec
		for tries := 0; ; tries++ {
			spec = progen.Gen(rt, progen.Opts{MaxOps: 5, MaxRows: 150, MaxShards: 4, NoScan: true, Ops: cacheOps})
			if hasCache(spec) || tries > 3 {
				break
			}
		}
		if !hasCache(spec) {
			// construct rather than reject: append a cache over the root
			root := spec.Root()
			spec.Nodes = append(spec.Nodes, progen.Node{Op: rapid.SampledFrom([]string{"cache", "cachepartial"}).Draw(rt, "cacheop"), In: []int{root}, CachePrefix: "/croot"})
			if err := progen.Annotate(spec); err != nil {
				rt.Fatalf("harness: %v", err)
			}
		}
		ex := rapid.SampledFrom([]string{"local", "local", "bigmachine"}).Draw(rt, "exec")
		mask := rapid.IntRange(0, 255).Draw(rt, "mask")
		c := Case{Spec: *spec, Exec: ex, Mask: mask}
		b, _ := json.Marshal(c)
		h := vt.Hash(string(b))
		d := fresh()
		err, counts := runCase(c, d)
		os.RemoveAll(d)
		classes := []string{"exec:" + ex}
		for _, cn := range cacheNodes(spec) {
			classes = append(classes, "op:"+cn.n.Op)
		}
		sort.Strings(classes)
		nt := mask != 0 && mask != 255
		rec.Case(nt, h, classes...)
		if nt && rec.WantSample(ex) {
			rec.Sample(ex, map[string]interface{}{"program": progen.Summary(spec), "exec": ex, "mask": mask})
		}
		if err != nil {
			rec.Pending(sigOf(err), err.Error(), c)
			rt.Fatalf("%v", err)
		}
		// fault enumeration over the trace of the first run
		for _, kind := range vfault.Kinds {
			maxK := counts[kind]
			if maxK > 12 {
				maxK = 12
			}
			for k := 0; k < maxK; k++ {
				for _, short := range []bool{false, true} {
					if short && kind != "write" {
						continue
					}
					fc := c
					fc.Fault = &vfault.Fault{Kind: kind, N: k, Short: short}
					d := fresh()
					err, _ := runCase(fc, d)
					os.RemoveAll(d)
					rec.Case(true, vt.Hash(h, kind, k, short), "fault:"+kind)
					if rec.WantSample("fault:" + kind) {
						rec.Sample("fault:"+kind, map[string]interface{}{"program": progen.Summary(spec), "exec": ex, "mask": mask, "fault": fc.Fault})
					}
					if err != nil {
						rec.Pending(sigOf(err), err.Error(), fc)
						rt.Fatalf("fault %+v: %v", *fc.Fault, err)
					}
				}
			}
		}
	})
}

const shapesName = "TestVerifC13Shapes"

// shapeSpec builds source -> observer -> Cache|CachePartial -> wrapper -> tail.
func shapeSpec(nshard int, op, wrapper, tail string) *progen.Spec {
	src := progen.Node{Op: "readerfunc", Cols: []progen.Col{progen.TInt, progen.TInt, progen.TInt}, NShard: nshard, ShardRows: make([][][]int, nshard)}
	for s := 0; s < nshard; s++ {
		for i := 0; i < 3; i++ {
			src.ShardRows[s] = append(src.ShardRows[s], []int{(s + i) % 5, i % 2, s % 7})
		}
	}
	spec := &progen.Spec{Nodes: []progen.Node{src, {Op: "writerfunc", In: []int{0}}, {Op: op, In: []int{1}, CachePrefix: "/shape"}}}
	last := 2
	add := func(n progen.Node) {
		n.In = []int{last}
		spec.Nodes = append(spec.Nodes, n)
		last = len(spec.Nodes) - 1
	}
	switch wrapper {
	case "prefixed":
		add(progen.Node{Op: "prefixed", N: 2})
	case "map":
		add(progen.Node{Op: "map", Fn: &progen.Fn{Exprs: []progen.Expr{{K: "col", I: 0}, {K: "col", I: 1}, {K: "col", I: 2}}}})
	case "filter":
		add(progen.Node{Op: "filter", Fn: &progen.Fn{M: 10, T: 8}})
	}
	switch tail {
	case "reduce":
		if wrapper != "prefixed" {
			add(progen.Node{Op: "prefixed", N: 2}) // Reduce needs exactly one value column
		}
		add(progen.Node{Op: "reduce", Fn: &progen.Fn{}})
	case "reshuffle":
		add(progen.Node{Op: "reshuffle"})
	}
	if err := progen.Annotate(spec); err != nil {
		panic(err)
	}
	return spec
}

// TestVerifC13Shapes enumerates small fixed shapes around a cache node, including a Prefixed view
// directly over it and a shard count above the parallelism of the cache's file look-ups.
func TestVerifC13Shapes(t *testing.T) {
	rec := vt.New("C13", "cache-shapes",
		"complete enumeration: ReaderFunc -> observer -> {Cache, CachePartial} -> {nothing, Prefixed(2), Map, Filter} -> {nothing, Reduce, Reshuffle} x shard counts {1, 3, 170 (more shards than the cache looks up concurrently)} x pre-existing shard files {none, all, all but every 8th, only every 8th} x {local, bigmachine}; same oracle as cache (without fault enumeration); non-trivial = some but not all shard files pre-exist; distinct by case")
	defer func() {
		for k, s := range sessions {
			s.Close()
			delete(sessions, k)
		}
	}()
	dir := os.Getenv("VERIF_SCRATCH")
	if dir == "" {
		dir = os.TempDir()
	}
	type shape struct {
		NShard                int
		Op, Wrapper, Tail, Ex string
		Mask                  int
	}
	run := func(sh shape) error {
		c := Case{Spec: *shapeSpec(sh.NShard, sh.Op, sh.Wrapper, sh.Tail), Exec: sh.Ex, Mask: sh.Mask}
		d := filepath.Join(dir, "c13-shape")
		os.RemoveAll(d)
		os.MkdirAll(d, 0777)
		defer os.RemoveAll(d)
		err, _ := runCase(c, d)
		return err
	}
	docs, only := vt.Replays(shapesName)
	for _, d := range docs {
		var sh shape
		if err := json.Unmarshal(d.Case, &sh); err != nil {
			t.Fatal(err)
		}
		rec.Case(true, vt.Hash(string(d.Case)), "replay")
		if err := run(sh); err != nil {
			rec.Violation(shapesName, sigOf(err), err.Error(), sh)
			t.Errorf("replay: %v", err)
		}
	}
	if only || t.Failed() {
		return
	}
	excluded = rec.Exclude
	idx := 0
	failed := map[string]bool{}
	for _, nshard := range []int{1, 3, 170} {
		for _, op := range []string{"cache", "cachepartial"} {
			for _, wrapper := range []string{"", "prefixed", "map", "filter"} {
				for _, tail := range []string{"", "reduce", "reshuffle"} {
					for _, mask := range []int{0, 255, 254, 1} {
						for _, ex := range []string{"local", "bigmachine"} {
							if nshard == 170 && (ex == "bigmachine" || tail == "reshuffle" || wrapper == "map" || wrapper == "filter") {
								continue // the wide case is about the cache's own look-ups
							}
							idx++
							if !vt.Mine(idx) {
								continue
							}
							sh := shape{nshard, op, wrapper, tail, ex, mask}
							nt := (mask == 254 || mask == 1) && nshard > 1
							rec.Case(nt, vt.Hash("shape", nshard, op, wrapper, tail, ex, mask), "shape:"+op+"+"+wrapper+"+"+tail)
							if nt && rec.WantSample("shape") {
								rec.Sample("shape", sh)
							}
							if err := run(sh); err != nil {
								if sig := sigOf(err); !failed[sig] {
									failed[sig] = true
									rec.Violation(shapesName, sig, fmt.Sprintf("%+v: %v", sh, err), sh)
								}
								t.Errorf("%+v: %v", sh, err)
							}
						}
					}
				}
			}
		}
	}
	rec.Exhaustive = true
}
