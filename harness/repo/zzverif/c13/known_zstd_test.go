//go:build verif
// +build verif

package c13

import (
	"encoding/json"
	"fmt"
	"os"
	"path/filepath"
	"testing"

	"github.com/grailbio/bigslice/zzverif/progen"
	"github.com/grailbio/bigslice/zzverif/vfault"
	"github.com/grailbio/bigslice/zzverif/vt"
)

// TestVerifC13KnownZstd executes the canonical instance of the recorded known
// finding "cache files written through the cgo zstd binding can be corrupt
// after a failure-free run".
func TestVerifC13KnownZstd(t *testing.T) {
	rec := vt.New("C13", "known-finding-probe", "one fixed program per recorded known finding (not counted as exploration)")
	if _, only := vt.Replays("none"); only || vt.Shard() != 0 {
		return
	}
	var spec progen.Spec
	if err := json.Unmarshal([]byte(knownZstdSpec), &spec); err != nil {
		t.Fatal(err)
	}
	if err := progen.Annotate(&spec); err != nil {
		t.Fatal(err)
	}
	dir := os.Getenv("VERIF_SCRATCH")
	if dir == "" {
		dir = os.TempDir()
	}
	d := filepath.Join(dir, "c13-known")
	os.RemoveAll(d)
	os.MkdirAll(d, 0777)
	defer os.RemoveAll(d)
	vfault.Set(nil)
	out := runOnce(sessionFor("local"), spec, d)
	rec.Case(false, vt.Hash("probe"), "probe")
	if out.err != nil {
		t.Fatalf("probe run failed: %v", out.err)
	}
	for _, cn := range cacheNodes(&spec) {
		for s := 0; s < cn.n.Shards; s++ {
			p := cachePath(d, cn.n, s)
			if _, err := os.Stat(p); err != nil {
				continue
			}
			if _, rerr := readCacheFile(p, cn.n.Schema); rerr != nil {
				if zstdInputReuse(p, cn.n.Schema, completeStream(out.streams[cn.obs], s)) {
					rec.KnownStillFails("zstd-cgo-input-reuse", fmt.Sprintf("cache file of node %d shard %d does not decode after a failure-free run: %v", cn.id, s, rerr))
					return
				}
				rec.Violation(testName, "cache:partial-file", fmt.Sprintf("probe: cache file of node %d shard %d does not decode: %v", cn.id, s, rerr), spec)
				t.Errorf("cache file does not decode: %v", rerr)
				return
			}
		}
	}
	rec.Note("known finding zstd-cgo-input-reuse did not reproduce on its canonical program")
}

const knownZstdSpec = `{"run_id": 0, "nodes": [{"op": "scanreader", "nshard": 4, "lines": ["line-14", "line-5", "line-24", "line-3", "", "line-2", "line-13", "line-18", "line-6", "line-23", "line-9", "line-21", "line-4", "line-12", "line-21", "line-3", "line-20", "line-24", "line-9", "line-21", "line-2", "line-23", "line-1", "line-3", "line-9", "line-14", "line-3", "line-15", "line-19", "line-7", "line-10", "line-1", "line-1", "line-17", "line-6", "", "line-4", "line-6", "line-15", "line-11", "line-11", "line-1", "line-12", "line-18", "line-5", "line-2", "line-3", "line-10", "line-15", "line-20", "line-2", "", "line-12", "line-3", "line-11", "", "line-1", "line-21", "line-2"], "schema": {"cols": [1], "prefix": 1}, "shards": 4}, {"op": "const", "cols": [0, 13, 7], "nshard": 3, "rows": [[2, 3, 0], [1, 2, 3], [0, 1, 4], [0, 4, 3], [2, 2, 3], [0, 3, 1], [1, 0, 3], [0, 2, 2], [0, 1, 2], [0, 3, 0], [0, 0, 0], [0, 2, 4], [1, 1, 2], [0, 4, 0], [4, 1, 0], [1, 2, 1], [0, 2, 1], [2, 3, 4], [0, 2, 2], [1, 2, 4], [3, 4, 3], [1, 4, 3], [1, 0, 1], [2, 2, 0], [3, 3, 3], [4, 2, 3], [1, 1, 0], [2, 3, 4], [4, 3, 1], [4, 1, 3], [4, 3, 2], [1, 1, 0], [1, 1, 2], [4, 0, 0], [4, 0, 2], [4, 4, 0], [2, 0, 1], [3, 3, 1], [1, 4, 4], [1, 4, 1], [2, 3, 0], [3, 2, 4], [0, 1, 1], [2, 0, 3], [1, 1, 0], [4, 3, 2], [1, 3, 1], [3, 2, 3], [3, 1, 2], [2, 0, 1], [1, 1, 2], [0, 2, 3], [4, 4, 2], [0, 4, 0], [4, 1, 0], [2, 3, 1], [2, 3, 3], [1, 4, 4], [2, 1, 2], [3, 3, 0], [0, 0, 1], [3, 4, 1], [1, 0, 0], [4, 4, 3], [1, 4, 2], [0, 4, 1], [1, 1, 4], [0, 1, 3], [1, 0, 1], [0, 3, 3], [4, 3, 1], [4, 2, 1], [1, 0, 4], [1, 4, 2], [4, 3, 1], [0, 1, 1], [2, 1, 1], [0, 3, 1], [2, 2, 1], [1, 0, 4], [2, 2, 0], [0, 1, 0], [0, 1, 3], [0, 1, 1], [4, 4, 3], [4, 1, 3], [4, 1, 2], [3, 1, 1], [4, 4, 2], [4, 3, 3], [0, 1, 0], [2, 1, 4], [2, 0, 4], [2, 3, 4], [3, 1, 1], [1, 2, 1], [2, 0, 3], [1, 0, 1], [3, 2, 1], [2, 2, 2], [0, 4, 1], [4, 3, 1], [3, 1, 0], [1, 1, 0], [3, 2, 1], [2, 4, 0], [0, 0, 2], [4, 0, 0], [2, 4, 2], [4, 1, 0], [3, 1, 0], [4, 4, 2], [0, 0, 0], [1, 1, 4], [4, 1, 2], [1, 2, 1], [4, 1, 4], [1, 1, 4], [4, 4, 0], [0, 2, 2], [0, 3, 4], [0, 1, 0], [3, 0, 3], [1, 3, 3], [1, 3, 4], [3, 1, 2], [0, 1, 4], [2, 1, 1], [4, 4, 1]], "schema": {"cols": [0, 13, 7], "prefix": 1}, "shards": 3}, {"op": "map", "in": [1], "fn": {"exprs": [{"k": "col"}, {"k": "col", "i": 2}, {"k": "col", "i": 2}, {"k": "col", "i": 1}], "ctx": true}, "schema": {"cols": [0, 7, 7, 13], "prefix": 1}, "shards": 3}, {"op": "writerfunc", "in": [2], "schema": {"cols": [0, 7, 7, 13], "prefix": 1}, "shards": 3}, {"op": "cache", "in": [3], "cache_prefix": "/c4", "schema": {"cols": [0, 7, 7, 13], "prefix": 1}, "shards": 3}, {"op": "writerfunc", "in": [4], "schema": {"cols": [0, 7, 7, 13], "prefix": 1}, "shards": 3}]}`
