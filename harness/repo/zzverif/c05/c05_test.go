//go:build verif
// +build verif

// Package c05 checks property C05: keyed redistribution puts each key in one
// shard, chosen by the key alone.
package c05

import (
	"context"
	"encoding/json"
	"fmt"
	"io/ioutil"
	"os"
	osexec "os/exec"
	"path/filepath"
	"sort"
	"testing"
	"time"

	"github.com/grailbio/bigslice/exec"
	"github.com/grailbio/bigslice/zzverif/progen"
	"github.com/grailbio/bigslice/zzverif/runner"
	"github.com/grailbio/bigslice/zzverif/vgen"
	"github.com/grailbio/bigslice/zzverif/vt"
	"pgregory.net/rapid"
)

func TestMain(m *testing.M) {
	runner.Quiet()
	code := m.Run()
	vt.Flush()
	os.Exit(code)
}

// Layout says how the rows are presented to the redistributing operator.
type Layout struct {
	Producers int           `json:"producers"`
	Perm      int           `json:"perm"`   // row order: rotate/reverse selector
	Copies    int           `json:"copies"` // each key appears this many times per producer (1..3)
	Cfg       runner.Config `json:"cfg"`
}

// Cell is one redistribution scenario.
type Cell struct {
	KeyCols []progen.Col `json:"key_cols"`
	Keys    [][]int      `json:"keys"` // selectors of the distinct keys (explicit list) ...
	AllOf   int          `json:"all_of,omitempty"` // ... or all AllOf selectors 0..AllOf-1 of a single key column
	NShard  int          `json:"nshard"`
	Op      string       `json:"op"` // reshuffle reduce fold cogroup reshard repartition
	PartKind string      `json:"part_kind,omitempty"`
}

func (c Cell) keys() [][]int {
	if c.AllOf > 0 {
		k := make([][]int, c.AllOf)
		for i := range k {
			k[i] = []int{i}
		}
		return k
	}
	return c.Keys
}

// program builds source -> [prefixed] -> op -> observer.
func program(c Cell, l Layout) *progen.Spec {
	p := len(c.KeyCols)
	cols := append(append([]progen.Col{}, c.KeyCols...), progen.TInt)
	keys := c.keys()
	src := progen.Node{Op: "readerfunc", Cols: cols, NShard: l.Producers, ShardRows: make([][][]int, l.Producers), Script: []vgen.Chunk{{N: 3}, {N: 129}, {N: 1}}}
	for s := 0; s < l.Producers; s++ {
		n := len(keys)
		for cp := 0; cp < l.Copies; cp++ {
			for i := 0; i < n; i++ {
				// a different order per producer and copy, so that a key sits at different vector positions and batches
				j := (i*1 + s*7 + cp*13 + l.Perm) % n
				if (s+cp+l.Perm)%2 == 1 {
					j = n - 1 - j
				}
				row := append(append([]int{}, keys[j]...), (s*31+cp*7+j)%23)
				src.ShardRows[s] = append(src.ShardRows[s], row)
			}
		}
	}
	spec := &progen.Spec{Nodes: []progen.Node{src}}
	last := 0
	add := func(n progen.Node) {
		spec.Nodes = append(spec.Nodes, n)
		last = len(spec.Nodes) - 1
	}
	if p != 1 && c.Op != "fold" && c.Op != "repartition" {
		add(progen.Node{Op: "prefixed", In: []int{last}, N: p})
	}
	switch c.Op {
	case "reshuffle":
		add(progen.Node{Op: "reshuffle", In: []int{last}})
	case "reduce":
		add(progen.Node{Op: "reduce", In: []int{last}, Fn: &progen.Fn{}})
	case "fold":
		add(progen.Node{Op: "fold", In: []int{last}, Fn: &progen.Fn{Kind: "sumhash"}})
	case "cogroup":
		add(progen.Node{Op: "cogroup", In: []int{last, last}})
	case "reshard":
		add(progen.Node{Op: "reshard", In: []int{last}, N: c.NShard})
	case "reshard2":
		// to another shard count and back to the original one: the second Reshard must still redistribute
		add(progen.Node{Op: "reshard", In: []int{last}, N: c.NShard + 1})
		add(progen.Node{Op: "reshard", In: []int{last}, N: c.NShard})
	case "repartition":
		add(progen.Node{Op: "repartition", In: []int{last}, Fn: &progen.Fn{Kind: c.PartKind, M: 2}})
	}
	add(progen.Node{Op: "writerfunc", In: []int{last}})
	if err := progen.Annotate(spec); err != nil {
		panic(err)
	}
	return spec
}

// placement runs the cell under a layout and returns key -> shard.
func placement(sessions map[string]*runner.Session, c Cell, l Layout) (m map[string]int, rowsPerKey map[string]int, nshard int, err error) {
	defer func() {
		if r := recover(); r != nil {
			_, stack := vt.PanicSig(r)
			err = fmt.Errorf("panic: %v\n%s", r, stack)
		}
	}()
	if c.Op != "reshard" {
		// the shard count of the other operators is the producer count
		l.Producers = c.NShard
	} else if l.Producers == c.NShard {
		l.Producers++ // Reshard to the current shard count is the identity and redistributes nothing
	}
	spec := program(c, l)
	spec.RunID = runner.NewRunID()
	defer progen.DropEnv(spec.RunID)
	sess := sessions[l.Cfg.String()]
	if sess == nil {
		sess = runner.Start(l.Cfg)
		sessions[l.Cfg.String()] = sess
	}
	ctx := context.Background()
	var runErr error
	ok := runner.WithTimeout(180*time.Second, func() {
		res, e := sess.Run(ctx, spec)
		if e != nil {
			runErr = e
			return
		}
		res.Discard(ctx)
	})
	if !ok {
		delete(sessions, l.Cfg.String())
		return nil, nil, 0, fmt.Errorf("run did not finish within 180s under %s", l.Cfg)
	}
	if runErr != nil {
		return nil, nil, 0, fmt.Errorf("run failed under %s: %v", l.Cfg, runErr)
	}
	root := spec.Root()
	nshard = spec.Nodes[root].Shards
	p := len(c.KeyCols)
	if c.Op == "fold" {
		p = 1
	}
	m = map[string]int{}
	rowsPerKey = map[string]int{}
	seenShard := map[int]bool{}
	for _, st := range progen.EnvOf(spec.RunID).StreamsOf(root) {
		if st.Ends == 0 {
			continue
		}
		if seenShard[st.Shard] {
			continue // a re-run of the task (distributed executor): same rows
		}
		seenShard[st.Shard] = true
		for _, r := range st.Rows {
			k := progen.RowKey(r[:p])
			if c.Op == "repartition" && c.PartKind == "hash" {
				k = progen.RowKey(r) // the function looks at the whole row: only rows that are equal must meet
			}
			if sh, ok := m[k]; ok && sh != st.Shard {
				return nil, nil, nshard, fmt.Errorf("after %s into %d shards under %s, rows with key %s are in shards %d and %d", c.Op, nshard, l.Cfg, k, sh, st.Shard)
			}
			m[k] = st.Shard
			rowsPerKey[k]++
		}
	}
	if len(seenShard) != nshard {
		return nil, nil, nshard, fmt.Errorf("harness: %d of %d shards observed", len(seenShard), nshard)
	}
	want := len(c.keys())
	if c.Op == "fold" {
		first := map[string]bool{}
		for _, k := range c.keys() {
			first[fmt.Sprint(k[0])] = true
		}
		want = len(first)
	}
	if len(m) != want && c.Op != "fold" && !(c.Op == "repartition" && c.PartKind == "hash") {
		return nil, nil, nshard, fmt.Errorf("%d distinct keys went in, %d came out of %s", want, len(m), c.Op)
	}
	switch c.Op {
	case "reduce", "fold", "cogroup":
		for k, n := range rowsPerKey {
			if n != 1 {
				return nil, nil, nshard, fmt.Errorf("%s emitted key %s %d times in the whole result", c.Op, k, n)
			}
		}
	case "repartition":
		// each row must be in exactly the shard the function returned
		for _, st := range progen.EnvOf(spec.RunID).StreamsOf(root) {
			for _, r := range st.Rows {
				if w := progen.Partition(&progen.Fn{Kind: c.PartKind, M: 2}, nshard, r); w != st.Shard {
					return nil, nil, nshard, fmt.Errorf("repartition (%s) placed row %s in shard %d, its function returned %d", c.PartKind, progen.RowKey(r), st.Shard, w)
				}
			}
		}
	}
	return m, rowsPerKey, nshard, nil
}

func sameMap(a, b map[string]int, what string) error {
	keys := make([]string, 0, len(a))
	for k := range a {
		keys = append(keys, k)
	}
	sort.Strings(keys)
	for _, k := range keys {
		if sb, ok := b[k]; ok && sb != a[k] {
			return fmt.Errorf("key %s is placed in shard %d, but in shard %d %s: the shard is not a function of the key and the shard count alone", k, a[k], sb, what)
		}
	}
	if len(a) != len(b) {
		return fmt.Errorf("%d keys placed, %d %s", len(a), len(b), what)
	}
	return nil
}

type Pair struct {
	Cell Cell   `json:"cell"`
	L1   Layout `json:"l1"`
	L2   Layout `json:"l2"`
}

func checkPair(sessions map[string]*runner.Session, p Pair) error {
	m1, _, _, err := placement(sessions, p.Cell, p.L1)
	if err != nil {
		return err
	}
	m2, _, _, err := placement(sessions, p.Cell, p.L2)
	if err != nil {
		return err
	}
	if p.Cell.Op == "repartition" && p.Cell.PartKind != "col0" {
		return nil // the function looks at the whole row, not at a key
	}
	return sameMap(m1, m2, fmt.Sprintf("when produced as %+v instead of %+v", p.L2, p.L1))
}

var ops = []string{"reshuffle", "reduce", "fold", "cogroup", "reshard", "reshard2", "repartition"}

func genLayout(t *rapid.T, cfgs []runner.Config) Layout {
	return Layout{
		Producers: rapid.IntRange(1, 5).Draw(t, "producers"),
		Perm:      rapid.IntRange(0, 50).Draw(t, "perm"),
		Copies:    rapid.IntRange(1, 3).Draw(t, "copies"),
		Cfg:       rapid.SampledFrom(cfgs).Draw(t, "cfg"),
	}
}

const tPlacement = "TestVerifC05Placement"

func TestVerifC05Placement(t *testing.T) {
	rec := vt.New("C05", "placement",
		"rapid: key schemas of 1..3 columns over the 13 keyable types, 1..60 distinct keys, 1..9 shards, operator in {Reshuffle, Reduce, Fold, Cogroup, Reshard, Repartition}; the same keys are presented in two generated layouts (1..5 producers, different row orders so that keys sit at different vector positions and batches, 1..3 copies per producer, vector size {1,8,128}, local executor or bigmachine test system with/without machine combiners); oracle from the (shard,row) pairs of a WriterFunc observer after the operator: equal keys in one shard, identical key->shard map in both layouts, keyed aggregations emit every key once, Repartition puts each row where its function says; non-trivial = >= 2 producers hold the key set; distinct by (cell, layouts)")
	sessions := map[string]*runner.Session{}
	defer func() {
		for _, s := range sessions {
			s.Close()
		}
	}()
	docs, only := vt.Replays(tPlacement)
	for _, d := range docs {
		var p Pair
		if err := json.Unmarshal(d.Case, &p); err != nil {
			t.Fatal(err)
		}
		rec.Case(true, vt.Hash(string(d.Case)), "replay")
		if err := checkPair(sessions, p); err != nil {
			rec.Violation(tPlacement, "placement:"+p.Cell.Op, err.Error(), p)
			t.Errorf("replay: %v", err)
		}
	}
	if only || t.Failed() {
		return
	}
	defer rec.Commit(tPlacement)
	// size knobs are process-global: one vector size per process (by shard), executors vary inside
	chunk := []int{0, 8, 1}[vt.Shard()%3]
	cfgs := []runner.Config{
		{Exec: "local", Parallelism: 4, Chunk: chunk},
		{Exec: "bigmachine", Parallelism: 4, Machineprocs: 2, Chunk: chunk},
		{Exec: "bigmachine", Parallelism: 3, Machineprocs: 1, MachineCombiners: true, Chunk: chunk},
	}
	rapid.Check(t, func(rt *rapid.T) {
		var c Cell
		nk := rapid.IntRange(1, 3).Draw(rt, "nkeycols")
		c.Op = rapid.SampledFrom(ops).Draw(rt, "op")
		for i := 0; i < nk; i++ {
			c.KeyCols = append(c.KeyCols, rapid.IntRange(0, vgen.NumKeyable-1).Draw(rt, "keycol"))
		}
		if c.Op == "fold" {
			c.KeyCols[0] = rapid.SampledFrom([]progen.Col{progen.TInt, progen.TString, progen.TInt64}).Draw(rt, "foldkey")
		}
		nkeys := rapid.IntRange(1, 60).Draw(rt, "nkeys")
		maxSel := 40
		if rapid.IntRange(0, 5).Draw(rt, "many") == 0 {
			// hundreds of distinct keys: a shard holds more keys than the 128-row buffers the merging
			// operators refill from
			nkeys = rapid.IntRange(150, 400).Draw(rt, "manykeys")
			maxSel = 3000
		}
		seen := map[string]bool{}
		for i := 0; i < nkeys; i++ {
			k := rapid.SliceOfN(rapid.IntRange(0, maxSel), nk, nk).Draw(rt, "key")
			// distinct as VALUES (some types wrap around or fold selectors)
			vals := make([]interface{}, nk)
			for j := range k {
				vals[j] = progen.SelVal(c.KeyCols[j], k[j])
			}
			if ks := progen.RowKey(vals); !seen[ks] {
				seen[ks] = true
				c.Keys = append(c.Keys, k)
			}
		}
		c.NShard = rapid.IntRange(1, 9).Draw(rt, "nshard")
		c.PartKind = rapid.SampledFrom([]string{"hash", "col0", "const"}).Draw(rt, "partkind")
		p := Pair{c, genLayout(rt, cfgs), genLayout(rt, cfgs)}
		b, _ := json.Marshal(p)
		nt := p.L1.Producers >= 2 || p.L2.Producers >= 2 || c.NShard >= 2
		rec.Case(nt, vt.Hash(string(b)), "op:"+c.Op, "exec:"+p.L1.Cfg.Exec+"/"+p.L2.Cfg.Exec)
		if nt && rec.WantSample(c.Op) {
			names := []string{}
			for _, kc := range c.KeyCols {
				names = append(names, progen.ColName(kc))
			}
			rec.Sample(c.Op, map[string]interface{}{"key_types": names, "distinct_keys": len(c.Keys), "nshard": c.NShard, "l1": p.L1, "l2": p.L2})
		}
		if err := checkPair(sessions, p); err != nil {
			rec.Pending("placement:"+c.Op, err.Error(), p)
			rt.Fatalf("%v", err)
		}
	})
}

// ---------------------------------------------------------------------------

func exhaustiveCells() []Cell {
	var cells []Cell
	for _, kt := range []struct {
		col progen.Col
		n   int
	}{{3, 256}, {10, 256}, {4, 65536}, {11, 65536}} { // uint8, int8, uint16, int16: selector -> value is a bijection on the full range
		for _, ns := range []int{2, 3, 7, 8} {
			for _, op := range []string{"reshuffle", "reduce"} {
				cells = append(cells, Cell{KeyCols: []progen.Col{kt.col}, AllOf: kt.n, NShard: ns, Op: op})
			}
		}
	}
	// every keyable column type (strings, byte slices, floats, ...): a few dozen keys each; these cells are
	// about the hash of the type being the same in every process
	for col := 0; col < vgen.NumKeyable; col++ {
		var keys [][]int
		seen := map[string]bool{}
		for k := 0; k < 48; k++ {
			v := progen.RowKey(progen.Row{vgen.Universe[col].Val(k)})
			if !seen[v] {
				seen[v] = true
				keys = append(keys, []int{k})
			}
		}
		for _, ns := range []int{3, 8} {
			cells = append(cells, Cell{KeyCols: []progen.Col{col}, Keys: keys, NShard: ns, Op: "reshuffle"})
		}
	}
	return cells
}

// TestVerifC05Child computes placements in a separately started process.
func TestVerifC05Child(t *testing.T) {
	p := os.Getenv("VERIF_C05_CELLS")
	if p == "" {
		t.Skip()
	}
	b, err := ioutil.ReadFile(p)
	if err != nil {
		t.Fatal(err)
	}
	var cells []Cell
	if err := json.Unmarshal(b, &cells); err != nil {
		t.Fatal(err)
	}
	sessions := map[string]*runner.Session{}
	var out []map[string]int
	for _, c := range cells {
		m, _, _, err := placement(sessions, c, Layout{Producers: 2, Perm: 3, Copies: 1, Cfg: runner.Config{Exec: "local", Parallelism: 4}})
		if err != nil {
			t.Fatalf("%v", err)
		}
		out = append(out, m)
	}
	ob, _ := json.Marshal(out)
	if err := ioutil.WriteFile(p+".out", ob, 0666); err != nil {
		t.Fatal(err)
	}
}

const tExhaustive = "TestVerifC05Exhaustive"

func TestVerifC05Exhaustive(t *testing.T) {
	if os.Getenv("VERIF_C05_CELLS") != "" {
		t.Skip()
	}
	rec := vt.New("C05", "exhaustive-small-keys",
		"complete enumeration: up to 48 keys of every one of the 13 keyable column types (shard counts {3,8}, Reshuffle), every value of the 8-bit key types (uint8, int8; all 256 values) and, in the thorough tier, of the 16-bit key types (uint16, int16; all 65,536 values) x shard counts {2,3,7,8} x {Reshuffle, Reduce}; each cell is run with 3 producers holding every key twice in different orders on the local executor, again with another layout on the bigmachine test system, and in a separately started OS process; oracle: equal keys in one shard and the three key->shard maps identical; evaluations = cells x layouts; distinct by (key type, shard count, operator, layout)")
	if _, only := vt.Replays(tExhaustive); only {
		return
	}
	sessions := map[string]*runner.Session{}
	defer func() {
		for _, s := range sessions {
			s.Close()
		}
	}()
	var mine []Cell
	for i, c := range exhaustiveCells() {
		if c.AllOf > 256 && !vt.Thorough() {
			continue
		}
		if vt.Mine(i) {
			mine = append(mine, c)
		}
	}
	if len(mine) == 0 {
		return
	}
	// the other process
	dir := os.Getenv("VERIF_SCRATCH")
	if dir == "" {
		dir = os.TempDir()
	}
	f := filepath.Join(dir, "c05-cells.json")
	b, _ := json.Marshal(mine)
	if err := ioutil.WriteFile(f, b, 0666); err != nil {
		t.Fatal(err)
	}
	cmd := osexec.Command(os.Args[0], "-test.run", "^TestVerifC05Child$", "-test.timeout", "1800s")
	cmd.Env = append(os.Environ(), "VERIF_C05_CELLS="+f, "VERIF_STATS=")
	if out, err := cmd.CombinedOutput(); err != nil {
		t.Fatalf("harness: child failed: %v\n%s", err, out)
	}
	ob, err := ioutil.ReadFile(f + ".out")
	if err != nil {
		t.Fatal(err)
	}
	var theirs []map[string]int
	if err := json.Unmarshal(ob, &theirs); err != nil || len(theirs) != len(mine) {
		t.Fatalf("harness: bad child output")
	}
	reported := false
	for i, c := range mine {
		l1 := Layout{Producers: 3, Perm: 0, Copies: 2, Cfg: runner.Config{Exec: "local", Parallelism: 4}}
		l2 := Layout{Producers: 2, Perm: 11, Copies: 1, Cfg: runner.Config{Exec: "bigmachine", Parallelism: 4, Machineprocs: 2}}
		report := func(err error) {
			if err != nil && !reported {
				reported = true
				rec.Violation(tPlacement, "placement:"+c.Op, err.Error(), Pair{c, l1, l2})
				t.Errorf("%+v: %v", c, err)
			}
		}
		m1, _, _, err := placement(sessions, c, l1)
		rec.Case(true, vt.Hash(fmt.Sprint(c.KeyCols, c.NShard, c.Op), "local"), fmt.Sprintf("keys:%d", len(c.keys())))
		if err != nil {
			report(err)
			continue
		}
		m2, _, _, err := placement(sessions, c, l2)
		rec.Case(true, vt.Hash(fmt.Sprint(c.KeyCols, c.NShard, c.Op), "bigmachine"), fmt.Sprintf("keys:%d", len(c.keys())))
		if err != nil {
			report(err)
			continue
		}
		report(sameMap(m1, m2, "on the bigmachine executor with another layout"))
		rec.Case(true, vt.Hash(fmt.Sprint(c.KeyCols, c.NShard, c.Op), "process"), fmt.Sprintf("keys:%d", len(c.keys())))
		report(sameMap(m1, theirs[i], "in a separately started process"))
		if rec.WantSample("cell") {
			rec.Sample("cell", map[string]interface{}{"key_type": progen.ColName(c.KeyCols[0]), "keys": len(c.keys()), "nshard": c.NShard, "op": c.Op, "shard_of_first_keys": firstFew(m1)})
		}
	}
	rec.Exhaustive = true
}

func firstFew(m map[string]int) map[string]int {
	keys := make([]string, 0, len(m))
	for k := range m {
		keys = append(keys, k)
	}
	sort.Strings(keys)
	out := map[string]int{}
	for i := 0; i < 5 && i < len(keys); i++ {
		out[keys[i]] = m[keys[i]]
	}
	return out
}

const tShared = "TestVerifC05SharedViews"

type sharedCase struct {
	NShard      int  `json:"nshard"`
	Materialize bool `json:"materialize"`
	A           int  `json:"a"`
	B           int  `json:"b"`
}

// sharedPlacement runs Cogroup(A(s), B(s)) with an observer on the cogroup and returns key -> shard.
func sharedPlacement(sess *runner.Session, c sharedCase) (m map[string]int, nshard int, err error) {
	defer func() {
		if r := recover(); r != nil {
			_, stack := vt.PanicSig(r)
			err = fmt.Errorf("panic: %v\n%s", r, stack)
		}
	}()
	spec := progen.EnumShared(c.NShard, 60, c.Materialize, c.A, c.B)
	spec.Nodes = append(spec.Nodes, progen.Node{Op: "writerfunc", In: []int{spec.Root()}})
	if e := progen.Annotate(spec); e != nil {
		return nil, 0, fmt.Errorf("harness: %v", e)
	}
	spec.RunID = runner.NewRunID()
	defer progen.DropEnv(spec.RunID)
	var runErr error
	ok := runner.WithTimeout(180*time.Second, func() {
		res, e := sess.Run(context.Background(), spec)
		if e != nil {
			runErr = e
			return
		}
		res.Discard(context.Background())
	})
	if !ok {
		return nil, 0, fmt.Errorf("run did not finish within 180s")
	}
	if runErr != nil {
		return nil, 0, fmt.Errorf("run failed: %v", runErr)
	}
	root := spec.Root()
	nshard = spec.Nodes[root].Shards
	m = map[string]int{}
	seen := map[int]bool{}
	for _, st := range progen.EnvOf(spec.RunID).StreamsOf(root) {
		if st.Ends == 0 || seen[st.Shard] {
			continue
		}
		seen[st.Shard] = true
		for _, r := range st.Rows {
			k := progen.RowKey(r[:1])
			if sh, ok := m[k]; ok {
				return nil, nshard, fmt.Errorf("Cogroup(%s(s), %s(s)) into %d shards: key %s is emitted in shard %d and in shard %d", progen.SharedKinds[c.A], progen.SharedKinds[c.B], nshard, k, sh, st.Shard)
			}
			m[k] = st.Shard
		}
	}
	return m, nshard, nil
}

// TestVerifC05SharedViews: consumers that shuffle one shared sub-slice in different ways (other shard
// counts, other partitioners, a wider key through a Prefixed view) must not affect where the final
// Cogroup places a key.
func TestVerifC05SharedViews(t *testing.T) {
	if os.Getenv("VERIF_C05_CELLS") != "" {
		t.Skip()
	}
	rec := vt.New("C05", "shared-subslice-views",
		fmt.Sprintf("complete enumeration of Cogroup(A(s), B(s)) over one shared sub-slice for every ordered pair of consumer kinds %v (other shard counts, custom partitioners, a two-column key through a Prefixed view) x shard counts {2,3} x {plain, Materialize}; the Cogroup's output is observed per shard on the local executor; oracle: every key is emitted in exactly one shard and the key->shard map is the same for all programs with the same number of output shards; non-trivial = A != B; distinct by case", progen.SharedKinds))
	sess := runner.Start(runner.Config{Exec: "local", Parallelism: 4})
	defer sess.Close()
	run := func(c sharedCase, refs map[int]map[string]int) error {
		m, n, err := sharedPlacement(sess, c)
		if err != nil {
			return err
		}
		if ref, ok := refs[n]; ok {
			return sameMap(ref, m, fmt.Sprintf("in Cogroup(%s(s), %s(s))", progen.SharedKinds[c.A], progen.SharedKinds[c.B]))
		}
		refs[n] = m
		return nil
	}
	docs, only := vt.Replays(tShared)
	for _, d := range docs {
		var c sharedCase
		if err := json.Unmarshal(d.Case, &c); err != nil {
			t.Fatal(err)
		}
		rec.Case(true, vt.Hash(string(d.Case)), "replay")
		refs := map[int]map[string]int{}
		run(sharedCase{NShard: c.NShard}, refs) // reference: Cogroup(s, s)
		if err := run(c, refs); err != nil {
			rec.Violation(tShared, "placement:shared", err.Error(), c)
			t.Errorf("replay: %v", err)
		}
	}
	if only || t.Failed() {
		return
	}
	refs := map[int]map[string]int{}
	idx := 0
	reported := false
	for _, nshard := range []int{2, 3} {
		for _, mat := range []bool{false, true} {
			for a := range progen.SharedKinds {
				for b := range progen.SharedKinds {
					idx++
					c := sharedCase{nshard, mat, a, b}
					if !(a == 0 && b == 0) && !vt.Mine(idx) {
						continue // Cogroup(s, s) is every shard's reference
					}
					rec.Case(a != b, vt.Hash("sharedviews", nshard, mat, a, b), "pair:"+progen.SharedKinds[a]+"+"+progen.SharedKinds[b])
					if a != b && rec.WantSample("sharedviews") {
						rec.Sample("sharedviews", map[string]interface{}{"case": c, "a": progen.SharedKinds[a], "b": progen.SharedKinds[b]})
					}
					if err := run(c, refs); err != nil && !reported {
						reported = true
						rec.Violation(tShared, "placement:shared", err.Error(), c)
						t.Errorf("%+v: %v", c, err)
					}
				}
			}
		}
	}
	rec.Exhaustive = true
}

const tSharedResult = "TestVerifC05SharedResult"

type sharedResultCase struct {
	NShard int `json:"nshard"`
	A      int `json:"a"`
	B      int `json:"b"`
}

// shuffling consumer kinds of progen.SharedKinds (those that redistribute their input)
func shufflingKind(k int) bool {
	switch progen.SharedKinds[k] {
	case "self", "map", "filter":
		return false
	}
	return true
}

// keyed consumer kinds whose output shard is the default function of the first key column
func keyedKind(k, nshard int) bool {
	switch progen.SharedKinds[k] {
	case "reshard1", "reshard2", "reshard3":
		// Reshard to the number of shards that its argument already has returns the argument itself
		return progen.SharedKinds[k] != fmt.Sprintf("reshard%d", nshard)
	case "reshuffle", "reduce", "fold":
		return true
	}
	return false
}

// sharedResultRun runs Cogroup(W(A(r)), W(B(r))) over a reused Result r on the bigmachine executor and
// checks rows and observers; it returns the key->shard maps seen by the two observers (nil for
// consumers that are not keyed by the first column alone) with their shard counts.
func sharedResultRun(sess *runner.Session, c sharedResultCase) (maps [2]map[string]int, shards [2]int, err error) {
	defer func() {
		if r := recover(); r != nil {
			_, stack := vt.PanicSig(r)
			err = fmt.Errorf("panic: %v\n%s", r, stack)
		}
	}()
	main, arg := progen.EnumSharedArgObserved(c.NShard, 120, c.A, c.B)
	ctx := context.Background()
	arg.RunID = runner.NewRunID()
	defer progen.DropEnv(arg.RunID)
	aref, e := progen.Eval(arg, nil)
	if e != nil {
		return maps, shards, fmt.Errorf("harness: %v", e)
	}
	var argRes *exec.Result
	var runErr error
	var rows []progen.Row
	main.RunID = runner.NewRunID()
	defer progen.DropEnv(main.RunID)
	ok := runner.WithTimeout(180*time.Second, func() {
		argRes, runErr = sess.Run(ctx, arg)
		if runErr != nil {
			return
		}
		var res *exec.Result
		res, runErr = sess.Run(ctx, main, argRes)
		if runErr != nil {
			return
		}
		rows, runErr = runner.Scan(ctx, res, main.Nodes[main.Root()].Schema)
		res.Discard(ctx)
		argRes.Discard(ctx)
	})
	if !ok {
		return maps, shards, fmt.Errorf("run did not finish within 180s")
	}
	if runErr != nil {
		return maps, shards, fmt.Errorf("run failed: %v", runErr)
	}
	ref, e := progen.Eval(main, []*progen.Stage{aref.Stages[arg.Root()]})
	if e != nil {
		return maps, shards, fmt.Errorf("harness: %v", e)
	}
	if e := progen.CheckRows(ref.Stages[main.Root()], rows); e != nil {
		return maps, shards, fmt.Errorf("rows of Cogroup(%s(r), %s(r)): %v", progen.SharedKinds[c.A], progen.SharedKinds[c.B], e)
	}
	env := progen.EnvOf(main.RunID)
	if e := progen.CheckObserversOpt(main, ref, env, rows, false); e != nil {
		return maps, shards, fmt.Errorf("Cogroup(%s(r), %s(r)): %v", progen.SharedKinds[c.A], progen.SharedKinds[c.B], e)
	}
	// observers in node order: the first one follows A, the second one B
	k := 0
	for id := range main.Nodes {
		if main.Nodes[id].Op != "writerfunc" || k > 1 {
			continue
		}
		kind := c.A
		if k == 1 {
			kind = c.B
		}
		if keyedKind(kind, c.NShard) {
			m := map[string]int{}
			seen := map[int]bool{}
			for _, st := range env.StreamsOf(id) {
				if st.Ends == 0 || seen[st.Shard] {
					continue
				}
				seen[st.Shard] = true
				for _, r := range st.Rows {
					m[progen.RowKey(r[:1])] = st.Shard
				}
			}
			maps[k] = m
			shards[k] = main.Nodes[id].Shards
		}
		k++
	}
	return maps, shards, nil
}

// TestVerifC05SharedResult: one Func redistributes one reused Result in two different ways (the
// re-shuffle tasks that the compiler inserts for a Result are per consumer); on the bigmachine
// executor, where tasks are addressed by name, every consumer must still get the placement it asked for.
func TestVerifC05SharedResult(t *testing.T) {
	if os.Getenv("VERIF_C05_CELLS") != "" {
		t.Skip()
	}
	rec := vt.New("C05", "shared-result-redistributed-twice",
		fmt.Sprintf("complete enumeration of Cogroup(W(A(r)), W(B(r))) over one reused Result r (argument of the Func; 120 rows, 7 keys) for every ordered pair of redistributing consumer kinds of %v x shard counts {2,3}, on the bigmachine test system (2 procs per machine, parallelism 4); W = WriterFunc observer; oracle: scanned rows equal the reference; each observer sees every shard completely, equal keys in one shard, Repartition rows in the shard their function names; the key->shard map of every consumer keyed by the first column equals that of every other such consumer with the same shard count, in this and all other programs of the run; non-trivial = A != B; distinct by case", progen.SharedKinds))
	sess := runner.Start(runner.Config{Exec: "bigmachine", Parallelism: 4, Machineprocs: 2})
	defer sess.Close()
	refs := map[int]map[string]int{}
	run := func(c sharedResultCase) error {
		maps, shards, err := sharedResultRun(sess, c)
		if err != nil {
			return err
		}
		for k, m := range maps {
			if m == nil {
				continue
			}
			kind := progen.SharedKinds[c.A]
			if k == 1 {
				kind = progen.SharedKinds[c.B]
			}
			if ref, ok := refs[shards[k]]; ok {
				if err := sameMap(ref, m, fmt.Sprintf("by %s(r) in Cogroup(%s(r), %s(r))", kind, progen.SharedKinds[c.A], progen.SharedKinds[c.B])); err != nil {
					return err
				}
			} else {
				refs[shards[k]] = m
			}
		}
		return nil
	}
	docs, only := vt.Replays(tSharedResult)
	for _, d := range docs {
		var c sharedResultCase
		if err := json.Unmarshal(d.Case, &c); err != nil {
			t.Fatal(err)
		}
		rec.Case(true, vt.Hash(string(d.Case)), "replay")
		if err := run(c); err != nil {
			rec.Violation(tSharedResult, "placement:shared-result", err.Error(), c)
			t.Errorf("replay: %v", err)
		}
	}
	if only || t.Failed() {
		return
	}
	idx := 0
	reported := false
	for _, nshard := range []int{2, 3} {
		for a := range progen.SharedKinds {
			for b := range progen.SharedKinds {
				if !shufflingKind(a) || !shufflingKind(b) {
					continue
				}
				idx++
				if !vt.Mine(idx) {
					continue
				}
				c := sharedResultCase{nshard, a, b}
				rec.Case(a != b, vt.Hash("sharedresult", nshard, a, b), "pair:"+progen.SharedKinds[a]+"+"+progen.SharedKinds[b])
				if a != b && rec.WantSample("sharedresult") {
					rec.Sample("sharedresult", map[string]interface{}{"case": c, "a": progen.SharedKinds[a], "b": progen.SharedKinds[b]})
				}
				if err := run(c); err != nil && !reported {
					reported = true
					rec.Violation(tSharedResult, "placement:shared-result", err.Error(), c)
					t.Errorf("%+v: %v", c, err)
				}
			}
		}
	}
	rec.Exhaustive = true
}
