//go:build verif
// +build verif

package progen

import "github.com/grailbio/bigslice/zzverif/vgen"

// EnumOps is the reduced operator alphabet of the bounded-exhaustive
// enumeration. Every operator maps a slice of type <int,int>/1 to a slice of
// the same type, so every sequence over the alphabet is a well-typed program.
var EnumOps = []string{"map", "filter", "flatmap", "head", "reduce", "fold", "cogroup", "reshuffle", "repartition", "reshard"}

// EnumProgram builds the program: source kind (0 const, 1 readerfunc) with
// nrows rows over nshard shards, followed by the operator sequence ops
// (indices into EnumOps). It returns nil if the sequence applies Head where
// the per-shard order is not fixed (those programs are generated randomly
// instead, with the weaker oracle).
func EnumProgram(source, nshard, nrows int, ops []int) *Spec {
	spec := &Spec{}
	cols := []Col{TInt, TInt}
	sel := make([][]int, nrows)
	for i := range sel {
		sel[i] = []int{i % 5, i % 23}
	}
	seq := true // per-shard order fixed
	if source == 0 {
		spec.Nodes = append(spec.Nodes, Node{Op: "const", Cols: cols, NShard: nshard, Rows: sel})
		seq = nrows%nshard == 0
	} else {
		n := Node{Op: "readerfunc", Cols: cols, NShard: nshard, ShardRows: make([][][]int, nshard), EOFWithRows: nrows%2 == 1,
			Script: []vgen.Chunk{{N: 1}, {N: 0}, {N: 127}}}
		for i, r := range sel {
			n.ShardRows[i%nshard] = append(n.ShardRows[i%nshard], r)
		}
		spec.Nodes = append(spec.Nodes, n)
	}
	last := func() int { return len(spec.Nodes) - 1 }
	for _, o := range ops {
		switch EnumOps[o] {
		case "map":
			spec.Nodes = append(spec.Nodes, Node{Op: "map", In: []int{last()}, Fn: &Fn{Exprs: []Expr{{K: "col", I: 0}, {K: "hash", T: TInt, M: 17}}}})
		case "filter":
			spec.Nodes = append(spec.Nodes, Node{Op: "filter", In: []int{last()}, Fn: &Fn{M: 10, T: 5}})
		case "flatmap":
			spec.Nodes = append(spec.Nodes, Node{Op: "flatmap", In: []int{last()}, Fn: &Fn{M: 3, Exprs: []Expr{{K: "col", I: 0}, {K: "hash", T: TInt, M: 1000}}}})
		case "head":
			if !seq {
				return nil
			}
			spec.Nodes = append(spec.Nodes, Node{Op: "head", In: []int{last()}, N: 1})
		case "reduce":
			spec.Nodes = append(spec.Nodes, Node{Op: "reduce", In: []int{last()}, Fn: &Fn{}})
			seq = false
		case "fold":
			spec.Nodes = append(spec.Nodes, Node{Op: "fold", In: []int{last()}, Fn: &Fn{Kind: "sumhash"}})
			seq = false
		case "cogroup":
			l := last()
			spec.Nodes = append(spec.Nodes, Node{Op: "cogroup", In: []int{l, l}})
			spec.Nodes = append(spec.Nodes, Node{Op: "map", In: []int{last()}, Fn: &Fn{Exprs: []Expr{{K: "col", I: 0}, {K: "len", I: 1}}}})
			seq = false
		case "reshuffle":
			spec.Nodes = append(spec.Nodes, Node{Op: "reshuffle", In: []int{last()}})
			seq = false
		case "repartition":
			spec.Nodes = append(spec.Nodes, Node{Op: "repartition", In: []int{last()}, Fn: &Fn{Kind: "hash"}})
			seq = false
		case "reshard":
			k := nshard%3 + 1
			spec.Nodes = append(spec.Nodes, Node{Op: "reshard", In: []int{last()}, N: k})
			if k != nshard {
				seq = false
			}
			nshard = k
		}
	}
	spec.Nodes = append(spec.Nodes, Node{Op: "writerfunc", In: []int{last()}})
	if err := Annotate(spec); err != nil {
		panic(err)
	}
	return spec
}

// EnumSeqs calls f with every operator sequence of length 0..depth.
func EnumSeqs(depth int, f func(ops []int)) {
	var rec func(prefix []int)
	rec = func(prefix []int) {
		f(append([]int{}, prefix...))
		if len(prefix) == depth {
			return
		}
		for o := range EnumOps {
			rec(append(prefix, o))
		}
	}
	rec(nil)
}

// SharedKinds are the consumer kinds of the shared-sub-slice enumeration; each
// maps a slice of type <int,int>/1 to a slice of the same type.
var SharedKinds = []string{"self", "map", "filter", "reshard1", "reshard2", "reshard3", "reshuffle", "reduce", "fold", "repartition-hash", "repartition-col0", "repartition-const", "p2-reshuffle", "p2-cogroup"}

// EnumShared builds Cogroup(A(s), B(s)) over one shared sub-slice s =
// Map(source) (optionally carrying the Materialize pragma), where A and B are
// consumer kinds (indices into SharedKinds). These are the programs in which
// the compiler's memoisation of compiled sub-slices decides whether two
// consumers get the tasks they asked for (shard count, partitioner, direct or
// shuffled dependency).
func EnumShared(nshard, nrows int, materialize bool, a, b int) *Spec {
	spec, _ := enumShared(nshard, nrows, materialize, a, b, false, false)
	return spec
}

// EnumSharedArg is EnumShared with the shared sub-slice being a reused Result:
// it returns the program Cogroup(A(r), B(r)) over its Result argument r and
// the program that computes r (Map(ReaderFunc)). Every consumer that
// redistributes r gets re-shuffle tasks of its own.
func EnumSharedArg(nshard, nrows int, a, b int) (main, arg *Spec) {
	return enumShared(nshard, nrows, false, a, b, true, false)
}

// EnumSharedArgObserved is EnumSharedArg with a WriterFunc observer behind each
// of the two consumers, Cogroup(W(A(r)), W(B(r))): the observers see where A
// and B have put every row.
func EnumSharedArgObserved(nshard, nrows int, a, b int) (main, arg *Spec) {
	return enumShared(nshard, nrows, false, a, b, true, true)
}

func enumShared(nshard, nrows int, materialize bool, a, b int, viaArg, observe bool) (*Spec, *Spec) {
	spec := &Spec{}
	src := Node{Op: "readerfunc", Cols: []Col{TInt, TInt}, NShard: nshard, ShardRows: make([][][]int, nshard), Script: []vgen.Chunk{{N: 64}}}
	for i := 0; i < nrows; i++ {
		src.ShardRows[i%nshard] = append(src.ShardRows[i%nshard], []int{i % 7, i % 23})
	}
	spec.Nodes = append(spec.Nodes, src)
	spec.Nodes = append(spec.Nodes, Node{Op: "map", In: []int{0}, Fn: &Fn{Exprs: []Expr{{K: "col", I: 0}, {K: "hash", T: TInt, M: 17}}}, Materialize: materialize})
	shared := 1
	var argSpec *Spec
	if viaArg {
		argSpec = spec
		if err := Annotate(argSpec); err != nil {
			panic(err)
		}
		root := argSpec.Nodes[argSpec.Root()]
		spec = &Spec{Args: []ArgInfo{{Schema: root.Schema, Shards: root.Shards}}}
		spec.Nodes = append(spec.Nodes, Node{Op: "arg", Arg: 0})
		shared = 0
	}
	consumer := func(k int) int {
		var n Node
		switch SharedKinds[k] {
		case "self":
			return shared
		case "map":
			n = Node{Op: "map", Fn: &Fn{Exprs: []Expr{{K: "col", I: 0}, {K: "hash", T: TInt, M: 29}}}}
		case "filter":
			n = Node{Op: "filter", Fn: &Fn{M: 10, T: 7}}
		case "reshard1":
			n = Node{Op: "reshard", N: 1}
		case "reshard2":
			n = Node{Op: "reshard", N: 2}
		case "reshard3":
			n = Node{Op: "reshard", N: 3}
		case "reshuffle":
			n = Node{Op: "reshuffle"}
		case "reduce":
			n = Node{Op: "reduce", Fn: &Fn{}}
		case "fold":
			n = Node{Op: "fold", Fn: &Fn{Kind: "sumhash"}}
		case "repartition-hash":
			n = Node{Op: "repartition", Fn: &Fn{Kind: "hash"}}
		case "repartition-col0":
			n = Node{Op: "repartition", Fn: &Fn{Kind: "col0"}}
		case "repartition-const":
			n = Node{Op: "repartition", Fn: &Fn{Kind: "const", M: 1}}
		case "p2-reshuffle", "p2-cogroup":
			// the same rows, shuffled by a two-column key through a Prefixed view of the shared slice
			spec.Nodes = append(spec.Nodes, Node{Op: "prefixed", In: []int{shared}, N: 2})
			op := Node{Op: "reshuffle", In: []int{len(spec.Nodes) - 1}}
			if SharedKinds[k] == "p2-cogroup" {
				op = Node{Op: "cogroup", In: []int{len(spec.Nodes) - 1}}
			}
			spec.Nodes = append(spec.Nodes, op)
			spec.Nodes = append(spec.Nodes, Node{Op: "prefixed", In: []int{len(spec.Nodes) - 1}, N: 1})
			return len(spec.Nodes) - 1
		}
		n.In = []int{shared}
		spec.Nodes = append(spec.Nodes, n)
		return len(spec.Nodes) - 1
	}
	ia := consumer(a)
	if observe {
		spec.Nodes = append(spec.Nodes, Node{Op: "writerfunc", In: []int{ia}})
		ia = len(spec.Nodes) - 1
	}
	ib := consumer(b)
	if observe {
		spec.Nodes = append(spec.Nodes, Node{Op: "writerfunc", In: []int{ib}})
		ib = len(spec.Nodes) - 1
	}
	spec.Nodes = append(spec.Nodes, Node{Op: "cogroup", In: []int{ia, ib}})
	if err := Annotate(spec); err != nil {
		panic(err)
	}
	return spec, argSpec
}

// EnumCogroupGaps builds Cogroup(A, B) where A holds nkeys distinct keys and B
// only some of them (pattern 0: every third key, 1: the lower half, 2: the
// upper half, 3: only the last key), so that groups are absent from one input
// in the first, a middle and the last output batch of a shard; followed by a
// consumer (0 none, 1 Map, 2 Filter) that is pipelined with the Cogroup and
// therefore reads it through one reused frame.
func EnumCogroupGaps(nkeys, nshard, pattern, consumer int) *Spec {
	mk := func(keep func(k int) bool) Node {
		n := Node{Op: "readerfunc", Cols: []Col{TInt, TInt}, NShard: nshard, ShardRows: make([][][]int, nshard), Script: []vgen.Chunk{{N: 100}}}
		i := 0
		for k := 0; k < nkeys; k++ {
			if keep(k) {
				n.ShardRows[i%nshard] = append(n.ShardRows[i%nshard], []int{k, k % 23})
				i++
			}
		}
		return n
	}
	spec := &Spec{}
	spec.Nodes = append(spec.Nodes, mk(func(int) bool { return true }))
	spec.Nodes = append(spec.Nodes, mk(func(k int) bool {
		switch pattern {
		case 0:
			return k%3 == 0
		case 1:
			return k < nkeys/2
		case 2:
			return k >= nkeys/2
		}
		return k == nkeys-1
	}))
	spec.Nodes = append(spec.Nodes, Node{Op: "cogroup", In: []int{0, 1}})
	switch consumer {
	case 1:
		spec.Nodes = append(spec.Nodes, Node{Op: "map", In: []int{2}, Fn: &Fn{Exprs: []Expr{{K: "col", I: 0}, {K: "len", I: 1}, {K: "len", I: 2}}}})
	case 2:
		spec.Nodes = append(spec.Nodes, Node{Op: "filter", In: []int{2}, Fn: &Fn{M: 10, T: 8}})
	}
	if err := Annotate(spec); err != nil {
		panic(err)
	}
	return spec
}

// EnumDeep builds Cogroup(A, B) where A and B are pipelines of da and db
// 1:1 operators (Map with different constants, every third one a Filter that
// keeps everything) over one shared or two separate sources: deeply pipelined
// stages, whose task names grow with the number of operators, must still be
// distinct computations.
func EnumDeep(nshard, nrows, da, db int, sharedSource bool) *Spec {
	spec := &Spec{}
	source := func(salt int) int {
		src := Node{Op: "readerfunc", Cols: []Col{TInt, TInt}, NShard: nshard, ShardRows: make([][][]int, nshard), Script: []vgen.Chunk{{N: 64}}}
		for i := 0; i < nrows; i++ {
			src.ShardRows[i%nshard] = append(src.ShardRows[i%nshard], []int{i, (i*7 + salt) % 1000})
		}
		spec.Nodes = append(spec.Nodes, src)
		return len(spec.Nodes) - 1
	}
	branch := func(src, depth, salt int) int {
		cur := src
		for i := 0; i < depth; i++ {
			var n Node
			if i%3 == 2 {
				n = Node{Op: "filter", Fn: &Fn{M: 10, T: 10}} // hash mod 10 < 10: keeps every row
			} else {
				n = Node{Op: "map", Fn: &Fn{Exprs: []Expr{{K: "col", I: 0}, {K: "hash", T: TInt, M: 1000 + salt}}}}
			}
			n.In = []int{cur}
			spec.Nodes = append(spec.Nodes, n)
			cur = len(spec.Nodes) - 1
		}
		return cur
	}
	sa := source(1)
	sb := sa
	if !sharedSource {
		sb = source(2)
	}
	a := branch(sa, da, 1)
	b := branch(sb, db, 2)
	spec.Nodes = append(spec.Nodes, Node{Op: "cogroup", In: []int{a, b}})
	if err := Annotate(spec); err != nil {
		panic(err)
	}
	return spec
}
