//go:build verif
// +build verif

package progen

import (
	"fmt"
	"reflect"
	"sort"
)

// Level is how much of a stage's layout the documentation fixes.
type Level int

const (
	// LShardSeq: per-shard ordered rows are fixed.
	LShardSeq Level = iota
	// LGlobalSeq: the global order is fixed and shards are contiguous, even
	// blocks in shard order, but which shards get the extra rows is not.
	LGlobalSeq
	// LShardBag: the multiset of each shard is fixed.
	LShardBag
	// LBag: only the global multiset (and key co-location) is fixed.
	LBag
)

func (l Level) String() string {
	return [...]string{"shard-seq", "global-seq", "shard-bag", "bag"}[l]
}

// Stage is the reference value of a node.
type Stage struct {
	Level  Level
	Shards [][]Row // LShardSeq, LShardBag
	All    []Row   // LGlobalSeq (in order), LBag
	NShard int
	Schema Schema
	Coloc  int // > 0: rows with equal first Coloc columns share a shard
	// Sub is set after Head on a stage whose per-shard order is not fixed:
	// the actual rows are a sub-multiset of the rows held here, of a size in
	// [SubMin, SubMax] (and per shard at most PerShardMax).
	Sub            bool
	SubMin, SubMax int
	PerShardMax    int
	// Cogroup is set on the stage of a Cogroup node (and pass-through ops).
	Cogroup *CogroupInfo
	// Even (LGlobalSeq only): the rows are split into contiguous blocks whose
	// sizes differ by at most one (true for Const and 1:1 operators after it).
	Even bool
}

// Rows returns all rows of the stage (in scan order where that is fixed).
func (s *Stage) Rows() []Row {
	if s.Level == LGlobalSeq || s.Level == LBag {
		return s.All
	}
	var out []Row
	for _, sh := range s.Shards {
		out = append(out, sh...)
	}
	return out
}

func (s *Stage) mapRows(f func(Row) []Row) *Stage {
	o := &Stage{Level: s.Level, NShard: s.NShard, Coloc: s.Coloc, Sub: s.Sub, SubMin: s.SubMin, SubMax: s.SubMax, PerShardMax: s.PerShardMax, Even: s.Even}
	if s.Level == LGlobalSeq || s.Level == LBag {
		for _, r := range s.All {
			o.All = append(o.All, f(r)...)
		}
		return o
	}
	o.Shards = make([][]Row, len(s.Shards))
	for i, sh := range s.Shards {
		for _, r := range sh {
			o.Shards[i] = append(o.Shards[i], f(r)...)
		}
	}
	return o
}

// Ref holds the reference evaluation of a program.
type Ref struct {
	Spec   *Spec
	Stages []*Stage
	// Calls[i] is the number of invocations of node i's user function in one
	// complete evaluation of the node (where that is determined).
	Calls []int
}

// Eval evaluates the program; args are the reference root stages of the
// Result arguments.
func Eval(spec *Spec, args []*Stage) (*Ref, error) {
	ref := &Ref{Spec: spec, Stages: make([]*Stage, len(spec.Nodes)), Calls: make([]int, len(spec.Nodes))}
	for i := range spec.Nodes {
		n := &spec.Nodes[i]
		var in []*Stage
		for _, k := range n.In {
			in = append(in, ref.Stages[k])
		}
		st, calls, err := evalNode(n, in, args)
		if err != nil {
			return nil, fmt.Errorf("node %d (%s): %v", i, n.Op, err)
		}
		st.Schema = n.Schema
		if st.NShard == 0 {
			st.NShard = n.Shards
		}
		ref.Stages[i] = st
		ref.Calls[i] = calls
	}
	return ref, nil
}

func keyOf(r Row, p int) string { return RowKey(r[:p]) }

// EvalNode evaluates a single node on given input stages.
func EvalNode(n *Node, in []*Stage) (*Stage, error) {
	st, _, err := evalNode(n, in, nil)
	if err != nil {
		return nil, err
	}
	st.Schema = n.Schema
	if st.NShard == 0 {
		st.NShard = n.Shards
	}
	return st, nil
}

// SingleShard wraps rows as a one-shard, fully ordered stage.
func SingleShard(s Schema, rows []Row) *Stage {
	return &Stage{Level: LShardSeq, NShard: 1, Shards: [][]Row{rows}, Schema: s}
}

func evalNode(n *Node, in []*Stage, args []*Stage) (*Stage, int, error) {
	switch n.Op {
	case "const":
		rows := SelRows(n.Cols, n.Rows)
		if len(rows)%n.NShard == 0 {
			st := &Stage{Level: LShardSeq, NShard: n.NShard, Shards: make([][]Row, n.NShard)}
			q := len(rows) / n.NShard
			for i := range st.Shards {
				st.Shards[i] = rows[i*q : (i+1)*q]
			}
			return st, 0, nil
		}
		return &Stage{Level: LGlobalSeq, NShard: n.NShard, All: rows, Even: true}, 0, nil
	case "readerfunc":
		st := &Stage{Level: LShardSeq, NShard: n.NShard, Shards: make([][]Row, n.NShard)}
		for i := range st.Shards {
			st.Shards[i] = SelRows(n.Cols, n.ShardRows[i])
		}
		return st, 0, nil
	case "scanreader":
		st := &Stage{Level: LBag, NShard: n.NShard}
		for _, l := range n.Lines {
			st.All = append(st.All, Row{l})
		}
		return st, 0, nil
	case "arg":
		a := *args[n.Arg]
		return &a, 0, nil
	case "map":
		calls := len(in[0].Rows())
		st := in[0].mapRows(func(r Row) []Row { return []Row{ApplyExprs(n.Fn.Exprs, r, 0)} })
		st.Coloc = 0
		return st, calls, nil
	case "filter":
		if in[0].Sub {
			return nil, 0, fmt.Errorf("filter after a non-deterministic head")
		}
		calls := len(in[0].Rows())
		st := in[0].mapRows(func(r Row) []Row {
			if FilterKeep(n.Fn, r) {
				return []Row{r}
			}
			return nil
		})
		st.Even = false
		return st, calls, nil
	case "flatmap":
		if in[0].Sub {
			return nil, 0, fmt.Errorf("flatmap after a non-deterministic head")
		}
		calls := len(in[0].Rows())
		st := in[0].mapRows(func(r Row) []Row { return FlatmapApply(n.Fn, r) })
		st.Coloc = 0
		st.Even = false
		return st, calls, nil
	case "writerfunc", "cache", "cachepartial", "prefixed":
		st := in[0].mapRows(func(r Row) []Row { return []Row{r} })
		st.Cogroup = in[0].Cogroup
		return st, 0, nil
	case "readcache":
		st := in[0].mapRows(func(r Row) []Row { return []Row{r} })
		return st, 0, nil
	case "head":
		s := in[0]
		if s.Sub {
			return nil, 0, fmt.Errorf("head after a non-deterministic head")
		}
		switch s.Level {
		case LShardSeq:
			st := &Stage{Level: LShardSeq, NShard: s.NShard, Shards: make([][]Row, len(s.Shards))}
			for i, sh := range s.Shards {
				k := n.N
				if k > len(sh) {
					k = len(sh)
				}
				st.Shards[i] = sh[:k]
			}
			return st, 0, nil
		case LShardBag:
			st := &Stage{Level: LShardBag, NShard: s.NShard, Shards: s.Shards, Sub: true, PerShardMax: n.N, Coloc: s.Coloc}
			for _, sh := range s.Shards {
				k := n.N
				if k > len(sh) {
					k = len(sh)
				}
				st.SubMin += k
			}
			st.SubMax = st.SubMin
			return st, 0, nil
		case LGlobalSeq:
			if !s.Even {
				t := len(s.All)
				lo, hi := n.N, n.N*s.NShard
				if lo > t {
					lo = t
				}
				if hi > t {
					hi = t
				}
				return &Stage{Level: LBag, NShard: s.NShard, All: s.All, Sub: true, SubMin: lo, SubMax: hi, PerShardMax: n.N}, 0, nil
			}
			t := len(s.All)
			q, rem := t/s.NShard, t%s.NShard
			mn := func(a, b int) int {
				if a < b {
					return a
				}
				return b
			}
			cnt := rem*mn(n.N, q+1) + (s.NShard-rem)*mn(n.N, q)
			return &Stage{Level: LBag, NShard: s.NShard, All: s.All, Sub: true, SubMin: cnt, SubMax: cnt, PerShardMax: n.N}, 0, nil
		default:
			t := len(s.All)
			lo, hi := n.N, n.N*s.NShard
			if lo > t {
				lo = t
			}
			if hi > t {
				hi = t
			}
			return &Stage{Level: LBag, NShard: s.NShard, All: s.All, Sub: true, SubMin: lo, SubMax: hi, PerShardMax: n.N, Coloc: s.Coloc}, 0, nil
		}
	case "scan":
		return &Stage{Level: LShardSeq, NShard: in[0].NShard, Shards: make([][]Row, in[0].NShard)}, 0, nil
	case "fold":
		if in[0].Sub {
			return nil, 0, fmt.Errorf("fold after a non-deterministic head")
		}
		rows := in[0].Rows()
		acc := map[string]Row{}
		var order []string
		for _, r := range rows {
			k := keyOf(r, 1)
			a, ok := acc[k]
			if !ok {
				var zero interface{} = 0
				if FoldAccType(n.Fn) == TString {
					zero = ""
				}
				a = Row{r[0], zero}
				order = append(order, k)
			}
			a[1] = FoldStep(n.Fn, a[1], r[1:])
			acc[k] = a
		}
		st := &Stage{Level: LBag, NShard: in[0].NShard, Coloc: 1}
		for _, k := range order {
			st.All = append(st.All, acc[k])
		}
		return st, len(rows), nil
	case "reduce":
		if in[0].Sub {
			return nil, 0, fmt.Errorf("reduce after a non-deterministic head")
		}
		rows := in[0].Rows()
		p := n.Schema.Prefix
		v := len(n.Schema.Cols) - 1
		acc := map[string]Row{}
		var order []string
		for _, r := range rows {
			k := keyOf(r, p)
			a, ok := acc[k]
			if !ok {
				acc[k] = append(Row{}, r...)
				order = append(order, k)
				continue
			}
			a[v] = Combine(n.Schema.Cols[v], a[v], r[v])
		}
		st := &Stage{Level: LBag, NShard: in[0].NShard, Coloc: p}
		for _, k := range order {
			st.All = append(st.All, acc[k])
		}
		return st, -1, nil
	case "reshuffle":
		if in[0].Sub {
			return nil, 0, fmt.Errorf("reshuffle after a non-deterministic head")
		}
		return &Stage{Level: LBag, NShard: in[0].NShard, All: in[0].Rows(), Coloc: n.Schema.Prefix}, 0, nil
	case "reshard":
		if in[0].NShard == n.N {
			a := *in[0]
			return &a, 0, nil
		}
		if in[0].Sub {
			return nil, 0, fmt.Errorf("reshard after a non-deterministic head")
		}
		return &Stage{Level: LBag, NShard: n.N, All: in[0].Rows(), Coloc: n.Schema.Prefix}, 0, nil
	case "repartition":
		if in[0].Sub {
			return nil, 0, fmt.Errorf("repartition after a non-deterministic head")
		}
		rows := in[0].Rows()
		st := &Stage{Level: LShardBag, NShard: in[0].NShard, Shards: make([][]Row, in[0].NShard)}
		for _, r := range rows {
			p := Partition(n.Fn, in[0].NShard, r)
			st.Shards[p] = append(st.Shards[p], r)
		}
		return st, -1, nil
	case "cogroup":
		p := n.Schema.Prefix
		type group struct {
			key  Row
			vals [][][]interface{} // per input, per value column, values
		}
		groups := map[string]*group{}
		var order []string
		for k, s := range in {
			if s.Sub {
				return nil, 0, fmt.Errorf("cogroup after a non-deterministic head")
			}
			nv := len(s.Schema.Cols) - p
			for _, r := range s.Rows() {
				key := keyOf(r, p)
				g, ok := groups[key]
				if !ok {
					g = &group{key: r[:p], vals: make([][][]interface{}, len(in))}
					groups[key] = g
					order = append(order, key)
				}
				if g.vals[k] == nil {
					g.vals[k] = make([][]interface{}, nv)
				}
				for c := 0; c < nv; c++ {
					g.vals[k][c] = append(g.vals[k][c], r[p+c])
				}
			}
		}
		st := &Stage{Level: LBag, NShard: n.Shards, Coloc: p}
		info := &CogroupInfo{P: p, Tuples: map[string][][]string{}}
		for _, s := range in {
			info.NV = append(info.NV, len(s.Schema.Cols)-p)
		}
		for _, key := range order {
			g := groups[key]
			row := append(Row{}, g.key...)
			tuples := make([][]string, len(in))
			for k, s := range in {
				nv := len(s.Schema.Cols) - p
				m := 0
				for c := 0; c < nv; c++ {
					col := reflect.MakeSlice(reflect.SliceOf(ColType(s.Schema.Cols[p+c])), 0, 0)
					if g.vals[k] != nil {
						for _, v := range g.vals[k][c] {
							col = reflect.Append(col, reflect.ValueOf(v))
						}
						m = len(g.vals[k][c])
					}
					row = append(row, col.Interface())
				}
				for i := 0; i < m; i++ {
					t := make(Row, nv)
					for c := 0; c < nv; c++ {
						t[c] = g.vals[k][c][i]
					}
					tuples[k] = append(tuples[k], RowKey(t))
				}
				sort.Strings(tuples[k])
			}
			info.Tuples[key] = tuples
			st.All = append(st.All, row)
		}
		st.Cogroup = info
		return st, 0, nil
	}
	return nil, 0, fmt.Errorf("unknown op")
}

// CogroupInfo records, for the stage of a Cogroup node, the value tuples of
// every group per input, so that the alignment of an input's value columns
// inside a group can be checked.
type CogroupInfo struct {
	P      int
	NV     []int                 // value columns per input
	Tuples map[string][][]string // key -> input -> sorted tuple keys
}

// CheckCogroupRow checks one actual Cogroup output row against the reference
// tuples (multiset per input, columns of one input aligned).
func (ci *CogroupInfo) CheckCogroupRow(r Row) error {
	key := keyOf(r, ci.P)
	want, ok := ci.Tuples[key]
	if !ok {
		return fmt.Errorf("cogroup emitted key %s that is in no input", key)
	}
	col := ci.P
	for k, nv := range ci.NV {
		if nv == 0 {
			continue
		}
		m := reflect.ValueOf(r[col]).Len()
		var got []string
		for c := 0; c < nv; c++ {
			if l := reflect.ValueOf(r[col+c]).Len(); l != m {
				return fmt.Errorf("cogroup key %s input %d: value columns have different lengths %d and %d", key, k, m, l)
			}
		}
		for i := 0; i < m; i++ {
			t := make(Row, nv)
			for c := 0; c < nv; c++ {
				t[c] = reflect.ValueOf(r[col+c]).Index(i).Interface()
			}
			got = append(got, RowKey(t))
		}
		sort.Strings(got)
		if fmt.Sprint(got) != fmt.Sprint(want[k]) {
			return fmt.Errorf("cogroup key %s input %d: group holds tuples %v, reference %v", key, k, got, want[k])
		}
		col += nv
	}
	return nil
}

// sortedKeys is a helper.
func sortedKeys(m map[string]int) []string {
	k := make([]string, 0, len(m))
	for s := range m {
		k = append(k, s)
	}
	sort.Strings(k)
	return k
}
