//go:build verif
// +build verif

package progen

import (
	"fmt"

	"github.com/grailbio/bigslice/zzverif/vgen"
	"pgregory.net/rapid"
)

// Opts steers program generation.
type Opts struct {
	MaxOps     int      // operators after the first source (default 8)
	MaxRows    int      // rows per source (default 300)
	MaxShards  int      // default 7
	Ops        []string // allowed operator alphabet (default: all of C01's)
	Args       []ArgInfo
	ArgLevels  []Level // level of each arg's stage
	ArgSubs    []bool
	NoObserver bool // do not append a root observer
	Counters   bool // generated functions take a context and bump the user metric
	Pragmas    bool // place Procs/Exclusive/Materialize pragmas
	NoScan     bool
	MaxTotal   int // bound on the estimated number of rows flowing anywhere (default 4000)
	Yield      bool
	NoShare    bool // every node has at most one consumer (no shared sub-slices)
}

var defaultOps = []string{"map", "map", "filter", "flatmap", "fold", "head", "reduce", "reduce", "cogroup", "reshuffle", "repartition", "reshard", "prefixed", "writerfunc", "source", "scan"}

type gen struct {
	t     *rapid.T
	o     Opts
	spec  *Spec
	level []Level
	sub   []bool
	est   []int // estimated row count
}

func (g *gen) draw(lo, hi int, label string) int { return rapid.IntRange(lo, hi).Draw(g.t, label) }

func (g *gen) add(n Node, lvl Level, sub bool, est int) int {
	g.spec.Nodes = append(g.spec.Nodes, n)
	if err := Annotate(g.spec); err != nil {
		panic(fmt.Sprintf("progen generator produced an ill-typed program: %v\n%+v", err, g.spec.Nodes))
	}
	g.level = append(g.level, lvl)
	g.sub = append(g.sub, sub)
	g.est = append(g.est, est)
	return len(g.spec.Nodes) - 1
}

func (g *gen) node(i int) *Node { return &g.spec.Nodes[i] }

func (g *gen) fn() *Fn {
	f := &Fn{}
	if g.o.Counters {
		f.Ctx = true
		f.Count = true
	} else if g.draw(0, 3, "ctx") == 0 {
		f.Ctx = true
	}
	if g.o.Yield && g.draw(0, 1, "yield") == 0 {
		f.YieldN = g.draw(1, 5, "yieldn")
	}
	return f
}

func (g *gen) prag(n *Node) {
	if !g.o.Pragmas {
		return
	}
	switch g.draw(0, 5, "pragma") {
	case 0:
		n.Procs = g.draw(1, 4, "procs")
	case 1:
		n.Exclusive = true
	case 2:
		n.Materialize = true
	}
}

func (g *gen) baseType(keyable bool) Col {
	if keyable {
		return g.draw(0, vgen.NumKeyable-1, "keytype")
	}
	return g.draw(0, len(vgen.Universe)-1, "type")
}

func (g *gen) card() int {
	return rapid.SampledFrom([]int{1, 2, 3, 5, 17, 50, 1000}).Draw(g.t, "card")
}

func (g *gen) source() int {
	nshard := g.draw(1, g.o.MaxShards, "nshard")
	kind := rapid.SampledFrom([]string{"const", "const", "readerfunc", "readerfunc", "scanreader"}).Draw(g.t, "source")
	ncol := g.draw(1, 3, "ncol")
	cols := make([]Col, ncol)
	for i := range cols {
		cols[i] = g.baseType(i == 0 && g.draw(0, 3, "keyfirst") != 0)
	}
	card := g.card()
	if card > 24 {
		card = 24
	}
	switch kind {
	case "const":
		n := vgen.SizeGen(g.o.MaxRows).Draw(g.t, "rows")
		if g.draw(0, 2, "even") != 0 {
			n -= n % nshard
		}
		return g.add(Node{Op: "const", Cols: cols, NShard: nshard, Rows: vgen.GenRows(g.t, ncol, n, card)}, map[bool]Level{true: LShardSeq, false: LGlobalSeq}[n%nshard == 0], false, n)
	case "readerfunc":
		nd := Node{Op: "readerfunc", Cols: cols, NShard: nshard}
		total := 0
		for s := 0; s < nshard; s++ {
			n := vgen.SizeGen(g.o.MaxRows / nshard).Draw(g.t, "shardrows")
			nd.ShardRows = append(nd.ShardRows, vgen.GenRows(g.t, ncol, n, card))
			total += n
		}
		nd.Script = vgen.GenScript(g.t, true, 140)
		nd.EOFWithRows = rapid.Bool().Draw(g.t, "eofwithrows")
		g.prag(&nd)
		return g.add(nd, LShardSeq, false, total)
	default:
		n := vgen.SizeGen(g.o.MaxRows).Draw(g.t, "lines")
		lines := make([]string, n)
		for i := range lines {
			k := g.draw(0, card, "line")
			if k == 0 {
				lines[i] = ""
			} else {
				lines[i] = fmt.Sprintf("line-%d", k)
			}
		}
		return g.add(Node{Op: "scanreader", NShard: nshard, Lines: lines}, LBag, false, n)
	}
}

func (g *gen) mapExprs(in Schema, nout int) []Expr {
	ex := make([]Expr, nout)
	for i := range ex {
		switch g.draw(0, 3, "exprkind") {
		case 0, 1:
			ex[i] = Expr{K: "col", I: g.draw(0, len(in.Cols)-1, "col")}
		case 2:
			ex[i] = Expr{K: "hash", T: g.baseType(false), M: g.card()}
		default:
			c := g.draw(0, len(in.Cols)-1, "lencol")
			if in.Cols[c] >= SliceOf {
				ex[i] = Expr{K: "len", I: c}
			} else {
				ex[i] = Expr{K: "const", T: g.baseType(false), M: g.draw(0, 20, "constsel")}
			}
		}
	}
	return ex
}

// keyed appends a map (and if needed a prefixed) node after src so that the
// result has the given key column types (nil: draw 1..3 key types), nval value
// columns (valType < 0: any base type) and a matching prefix.
func (g *gen) keyed(src int, keyTypes []Col, nval int, valType Col) int {
	in := g.node(src).Schema
	if keyTypes == nil {
		nk := g.draw(1, 3, "nkey")
		for i := 0; i < nk; i++ {
			keyTypes = append(keyTypes, g.baseType(true))
		}
	}
	card := g.card()
	var ex []Expr
	for _, kt := range keyTypes {
		// reuse an input column of that type when there is one (half of the time)
		used := false
		if g.draw(0, 1, "reusekey") == 0 {
			for c, ct := range in.Cols {
				if ct == kt {
					ex = append(ex, Expr{K: "col", I: c})
					used = true
					break
				}
			}
		}
		if !used {
			ex = append(ex, Expr{K: "hash", T: kt, M: card})
		}
	}
	for i := 0; i < nval; i++ {
		vt := valType
		if vt < 0 {
			vt = g.baseType(false)
		}
		found := false
		if g.draw(0, 1, "reuseval") == 0 {
			for c, ct := range in.Cols {
				if ct == vt {
					ex = append(ex, Expr{K: "col", I: c})
					found = true
					break
				}
			}
		}
		if !found {
			ex = append(ex, Expr{K: "hash", T: vt, M: g.card()})
		}
	}
	f := g.fn()
	f.Exprs = ex
	nd := Node{Op: "map", In: []int{src}, Fn: f}
	g.prag(&nd)
	id := g.add(nd, g.level[src], g.sub[src], g.est[src])
	if g.node(id).Schema.Prefix != len(keyTypes) {
		id = g.add(Node{Op: "prefixed", In: []int{id}, N: len(keyTypes)}, g.level[id], g.sub[id], g.est[id])
	}
	return id
}

func (g *gen) pickInput() int {
	n := len(g.spec.Nodes)
	// prefer the most recent node; sometimes an older one (sharing)
	for tries := 0; tries < 8; tries++ {
		i := n - 1
		if !g.o.NoShare && g.draw(0, 3, "older") == 0 {
			i = g.draw(0, n-1, "input")
		}
		if g.node(i).Op != "scan" {
			return i
		}
	}
	return 0
}

func (g *gen) allowed(op string) bool {
	for _, o := range g.o.Ops {
		if o == op {
			return true
		}
	}
	return false
}

func (g *gen) step() {
	op := rapid.SampledFrom(g.o.Ops).Draw(g.t, "op")
	if op == "source" {
		g.source()
		return
	}
	if op == "arg" {
		if len(g.o.Args) == 0 {
			return
		}
		a := g.draw(0, len(g.o.Args)-1, "arg")
		g.add(Node{Op: "arg", Arg: a}, g.o.ArgLevels[a], g.o.ArgSubs[a], 50)
		return
	}
	src := g.pickInput()
	in := g.node(src).Schema
	if g.sub[src] && op != "map" && op != "writerfunc" && op != "prefixed" && op != "cache" && op != "cachepartial" {
		op = "map"
	}
	if len(in.Cols) == 0 {
		return
	}
	switch op {
	case "map":
		f := g.fn()
		f.Exprs = g.mapExprs(in, g.draw(1, 4, "nout"))
		nd := Node{Op: "map", In: []int{src}, Fn: f}
		g.prag(&nd)
		g.add(nd, g.level[src], g.sub[src], g.est[src])
	case "filter":
		f := g.fn()
		f.M = 10
		f.T = rapid.SampledFrom([]int{0, 1, 5, 9, 10}).Draw(g.t, "thresh")
		nd := Node{Op: "filter", In: []int{src}, Fn: f}
		g.prag(&nd)
		g.add(nd, g.level[src], false, g.est[src])
	case "flatmap":
		f := g.fn()
		choices := []int{1, 2, 3, 5}
		if g.est[src] <= 12 {
			choices = append(choices, 300, 140)
		}
		f.M = rapid.SampledFrom(choices).Draw(g.t, "fan")
		if g.est[src]*f.M > g.o.MaxTotal {
			f.M = 2
		}
		f.Exprs = g.mapExprs(in, g.draw(1, 3, "nout"))
		nd := Node{Op: "flatmap", In: []int{src}, Fn: f}
		g.prag(&nd)
		g.add(nd, g.level[src], false, g.est[src]*f.M)
	case "head":
		k := rapid.SampledFrom([]int{0, 1, 2, 5, 127, 128, 129, 1000}).Draw(g.t, "headn")
		lvl, sub := g.level[src], false
		if lvl != LShardSeq {
			sub = true
			if lvl == LGlobalSeq {
				lvl = LBag
			}
		}
		g.add(Node{Op: "head", In: []int{src}, N: k}, lvl, sub, g.est[src])
	case "prefixed":
		maxp := 0
		for maxp < len(in.Cols) && Keyable(in.Cols[maxp]) {
			maxp++
		}
		if maxp == 0 {
			maxp = 1 // a prefix over a non-keyable column is legal as long as no keyed operator follows
		}
		g.add(Node{Op: "prefixed", In: []int{src}, N: g.draw(1, maxp, "prefix")}, g.level[src], g.sub[src], g.est[src])
	case "writerfunc":
		g.add(Node{Op: "writerfunc", In: []int{src}}, g.level[src], g.sub[src], g.est[src])
	case "cache", "cachepartial":
		// an observer directly upstream tells which shards were computed rather than read from the cache
		o := g.add(Node{Op: "writerfunc", In: []int{src}}, g.level[src], g.sub[src], g.est[src])
		g.add(Node{Op: op, In: []int{o}, CachePrefix: fmt.Sprintf("/c%d", len(g.spec.Nodes))}, g.level[src], g.sub[src], g.est[src])
	case "fold":
		kt := rapid.SampledFrom([]Col{TInt, TString, TInt64}).Draw(g.t, "foldkey")
		id := src
		if len(in.Cols) < 2 || in.Cols[0] != kt || g.draw(0, 1, "adaptfold") == 0 {
			id = g.keyedKeepPrefix(src, kt)
		}
		if g.node(id).Schema.Prefix != 1 {
			// "BUG(marius): Fold does not yet support slice grouping": only prefix 1 is documented to work
			id = g.add(Node{Op: "prefixed", In: []int{id}, N: 1}, g.level[id], g.sub[id], g.est[id])
		}
		f := g.fn()
		f.Kind = rapid.SampledFrom([]string{"count", "sumhash", "maxstr"}).Draw(g.t, "foldkind")
		g.add(Node{Op: "fold", In: []int{id}, Fn: f}, LBag, false, g.est[id])
	case "reduce":
		id := src
		if !(in.KeyOK() && len(in.Cols)-in.Prefix == 1 && Reducible(in.Cols[len(in.Cols)-1])) || g.draw(0, 2, "adaptreduce") == 0 {
			vt := rapid.SampledFrom([]Col{TInt, TInt64, TString, TFloat64, TUint16}).Draw(g.t, "valtype")
			id = g.keyed(src, nil, 1, vt)
		}
		rf := g.fn()
		rf.Count = false // the number of combiner calls depends on the combining strategy
		g.add(Node{Op: "reduce", In: []int{id}, Fn: rf}, LBag, false, g.est[id])
	case "reshuffle":
		id := src
		if !in.KeyOK() {
			id = g.keyed(src, nil, g.draw(0, 2, "nval"), -1)
		}
		g.add(Node{Op: "reshuffle", In: []int{id}}, LBag, false, g.est[id])
	case "reshard":
		id := src
		if !in.KeyOK() {
			id = g.keyed(src, nil, g.draw(0, 2, "nval"), -1)
		}
		k := g.draw(1, g.o.MaxShards, "reshardn")
		lvl := LBag
		if k == g.node(id).Shards {
			lvl = g.level[id]
		}
		g.add(Node{Op: "reshard", In: []int{id}, N: k}, lvl, false, g.est[id])
	case "repartition":
		f := g.fn()
		f.Count = false // whether/how often the partition function is called is not fixed (not at all for one shard)
		f.Kind = rapid.SampledFrom([]string{"hash", "const", "col0"}).Draw(g.t, "partkind")
		f.M = g.draw(0, 6, "partconst")
		if in.Prefix > len(in.Cols) {
			// an inherited prefix larger than the column count is an undocumented corner; do not shuffle such a slice
			src = g.add(Node{Op: "prefixed", In: []int{src}, N: 1}, g.level[src], g.sub[src], g.est[src])
		}
		g.add(Node{Op: "repartition", In: []int{src}, Fn: f}, LShardBag, false, g.est[src])
	case "cogroup":
		nin := g.draw(1, 3, "ncogroup")
		a := src
		if !in.KeyOK() || g.draw(0, 1, "adaptcg") == 0 || hasSlice(in) {
			a = g.keyed(src, nil, g.draw(0, 2, "nval"), -1)
		}
		as := g.node(a).Schema
		keyTypes := append([]Col{}, as.Cols[:as.Prefix]...)
		ins := []int{a}
		est := g.est[a]
		for k := 1; k < nin; k++ {
			var b int
			sel := g.draw(0, 2, "cgsrc")
			if g.o.NoShare {
				sel = 0
			}
			switch sel {
			case 0:
				b = g.source()
			case 1:
				b = g.pickInput()
			default:
				b = a // the same slice twice
			}
			if g.sub[b] || len(g.node(b).Schema.Cols) == 0 {
				b = g.source()
			}
			if b != a {
				b = g.keyed(b, keyTypes, g.draw(0, 2, "nval"), -1)
			}
			ins = append(ins, b)
			est += g.est[b]
		}
		g.add(Node{Op: "cogroup", In: ins}, LBag, false, est)
	case "scan":
		// only ever as the last operator; handled by Gen
	}
}

func hasSlice(s Schema) bool {
	for _, c := range s.Cols {
		if c >= SliceOf {
			return true
		}
	}
	return false
}

// keyedKeepPrefix appends a map producing (key of type kt, 1..2 values); the
// inherited prefix is left as it is (Fold groups by the first column whatever
// the prefix says).
func (g *gen) keyedKeepPrefix(src int, kt Col) int {
	in := g.node(src).Schema
	ex := []Expr{{K: "hash", T: kt, M: g.card()}}
	for c, ct := range in.Cols {
		if ct == kt && g.draw(0, 1, "reusekey") == 0 {
			ex[0] = Expr{K: "col", I: c}
			break
		}
	}
	for i, n := 0, g.draw(1, 2, "nval"); i < n; i++ {
		ex = append(ex, Expr{K: "col", I: g.draw(0, len(in.Cols)-1, "valcol")})
	}
	f := g.fn()
	f.Exprs = ex
	return g.add(Node{Op: "map", In: []int{src}, Fn: f}, g.level[src], g.sub[src], g.est[src])
}

// Gen draws a program.
func Gen(t *rapid.T, o Opts) *Spec {
	if o.MaxOps == 0 {
		o.MaxOps = 8
	}
	if o.MaxRows == 0 {
		o.MaxRows = 300
	}
	if o.MaxShards == 0 {
		o.MaxShards = 7
	}
	if o.MaxTotal == 0 {
		o.MaxTotal = 4000
	}
	if o.Ops == nil {
		o.Ops = defaultOps
	}
	g := &gen{t: t, o: o, spec: &Spec{Args: o.Args}}
	if len(o.Args) > 0 && g.draw(0, 2, "startarg") != 0 {
		a := g.draw(0, len(o.Args)-1, "arg")
		g.add(Node{Op: "arg", Arg: a}, o.ArgLevels[a], o.ArgSubs[a], 50)
	} else {
		g.source()
	}
	nops := g.draw(0, o.MaxOps, "nops")
	for i := 0; i < nops; i++ {
		g.step()
	}
	root := len(g.spec.Nodes) - 1
	if g.node(root).Op == "scan" {
		return g.spec
	}
	if !o.NoScan && g.allowed("scan") && len(g.node(root).Schema.Cols) > 0 && g.draw(0, 9, "scanroot") == 0 {
		g.add(Node{Op: "scan", In: []int{root}}, LShardSeq, false, 0)
		return g.spec
	}
	if !o.NoObserver && g.node(root).Op != "writerfunc" && len(g.node(root).Schema.Cols) > 0 {
		g.add(Node{Op: "writerfunc", In: []int{root}}, g.level[root], g.sub[root], g.est[root])
	}
	return g.spec
}

// Classes labels a program for the evidence histogram.
func Classes(spec *Spec) (classes []string, nops int) {
	seen := map[string]bool{}
	shuffles := 0
	consumers := make([]int, len(spec.Nodes))
	maxRows := 0
	for i, n := range spec.Nodes {
		for _, k := range n.In {
			consumers[k]++
		}
		switch n.Op {
		case "const", "readerfunc", "scanreader", "arg":
		default:
			nops++
		}
		seen["op:"+n.Op] = true
		switch n.Op {
		case "fold", "reduce", "cogroup", "reshuffle", "repartition", "reshard":
			shuffles++
		}
		if n.Op == "cogroup" && len(n.In) >= 2 {
			seen["cogroup-multi-input"] = true
		}
		if n.Schema.Prefix > 1 {
			seen["prefix>1"] = true
		}
		rows := len(n.Rows) + len(n.Lines)
		for _, sr := range n.ShardRows {
			rows += len(sr)
			if len(sr) == 0 {
				seen["empty-shard"] = true
			}
		}
		if n.Op == "const" && len(n.Rows) < n.NShard {
			seen["empty-shard"] = true
		}
		if rows > maxRows {
			maxRows = rows
		}
		if n.Op == "flatmap" && n.Fn.M >= 140 {
			seen["flatmap-fanout>=140"] = true
		}
		_ = i
	}
	for i := range spec.Nodes {
		if consumers[i] > 1 {
			seen["shared-subslice"] = true
		}
	}
	if shuffles >= 1 {
		seen["shuffle"] = true
	}
	if shuffles >= 2 {
		seen["nested-shuffle"] = true
	}
	if maxRows >= 129 {
		seen["rows>=129"] = true
	}
	for k := range seen {
		classes = append(classes, k)
	}
	return
}
