//go:build verif
// +build verif

package progen

import (
	"context"
	"errors"
	"fmt"
	"io"
	"io/ioutil"
	"reflect"
	"runtime"
	"strings"
	"sync"
	"sync/atomic"
	"time"

	baseerrors "github.com/grailbio/base/errors"
	"github.com/grailbio/bigslice"
	"github.com/grailbio/bigslice/metrics"
	"github.com/grailbio/bigslice/sliceio"
)

// UserCounter is the user metric incremented by generated functions whose Fn
// has Count set.
var UserCounter = metrics.NewCounter()

// UserCounter2 is a second registered counter (incremented by 2 per call) so
// that scopes carry more than one metric.
var UserCounter2 = metrics.NewCounter()

// The registered programs: a Spec plus 0..2 Result arguments.
var (
	Prog0 = bigslice.Func(func(spec Spec) bigslice.Slice { return Build(&spec, nil) })
	Prog1 = bigslice.Func(func(spec Spec, a bigslice.Slice) bigslice.Slice { return Build(&spec, []bigslice.Slice{a}) })
	Prog2 = bigslice.Func(func(spec Spec, a, b bigslice.Slice) bigslice.Slice {
		return Build(&spec, []bigslice.Slice{a, b})
	})
)

// ProgFunc returns the registered Func for a number of Result arguments.
func ProgFunc(nargs int) *bigslice.FuncValue {
	switch nargs {
	case 0:
		return Prog0
	case 1:
		return Prog1
	case 2:
		return Prog2
	}
	panic("progen: too many args")
}

// ---------------------------------------------------------------------------
// run-time registry: observers and call counters, per RunID

// Stream is what one reader instance of an observer (WriterFunc / Scan) saw.
type Stream struct {
	Node  int
	Shard int
	Rows  []Row
	Calls int
	Sizes []int  // rows per call (WriterFunc observers)
	Ends  int    // number of calls that carried an end-of-stream or error
	End   string // "EOF" or the error text of the last such call
	After int    // calls after the first end
}

// Env is the registry of one run.
type Env struct {
	mu      sync.Mutex
	Streams map[int][]*Stream
	calls   map[int]*int64
	active  int64 // gauge of currently running generated functions (C14 local mode)
	MaxActive int64
}

var (
	envMu sync.Mutex
	envs  = map[int]*Env{}
)

// EnvOf returns (creating if needed) the registry of a run.
func EnvOf(runID int) *Env {
	envMu.Lock()
	defer envMu.Unlock()
	e := envs[runID]
	if e == nil {
		e = &Env{Streams: map[int][]*Stream{}, calls: map[int]*int64{}}
		envs[runID] = e
	}
	return e
}

// DropEnv forgets the registry of a run.
func DropEnv(runID int) {
	envMu.Lock()
	delete(envs, runID)
	envMu.Unlock()
}

func (e *Env) newStream(node, shard int) *Stream {
	s := &Stream{Node: node, Shard: shard}
	e.mu.Lock()
	e.Streams[node] = append(e.Streams[node], s)
	e.mu.Unlock()
	return s
}

func (e *Env) counter(node int) *int64 {
	e.mu.Lock()
	defer e.mu.Unlock()
	c := e.calls[node]
	if c == nil {
		c = new(int64)
		e.calls[node] = c
	}
	return c
}

// Calls returns the number of invocations of node's generated function so far.
func (e *Env) Calls(node int) int {
	return int(atomic.LoadInt64(e.counter(node)))
}

// StreamsOf returns a snapshot of the streams of an observer node.
func (e *Env) StreamsOf(node int) []*Stream {
	e.mu.Lock()
	defer e.mu.Unlock()
	out := make([]*Stream, len(e.Streams[node]))
	for i, s := range e.Streams[node] {
		c := *s
		c.Rows = append([]Row{}, s.Rows...)
		c.Sizes = append([]int{}, s.Sizes...)
		out[i] = &c
	}
	return out
}

// InjectedMsg is contained in every injected failure.
const InjectedMsg = "verif-injected-failure"

// ErrInjected is the base of injected errors.
var ErrInjected = errors.New(InjectedMsg)

// hook is called on every invocation of a generated function: counts it,
// bumps the metric, yields, and fires the injected failure if due. pos is the
// position used for the failure decision (call ordinal if < 0).
func hook(env *Env, node int, fn *Fn, ctx context.Context, pos int, atEOF bool) error {
	if fn == nil {
		return nil
	}
	c := int(atomic.AddInt64(env.counter(node), 1) - 1)
	if fn.Count && fn.Ctx && ctx != nil {
		sc := metrics.ContextScope(ctx)
		UserCounter.Incr(sc, 1)
		UserCounter2.Incr(sc, 2)
	}
	if fn.YieldN > 0 && c%fn.YieldN == 0 {
		runtime.Gosched()
	}
	f := fn.Fail
	if f == nil {
		return nil
	}
	if pos < 0 {
		pos = c
	}
	due := false
	switch {
	case f.AtEOF:
		due = atEOF
	case f.Persistent:
		due = pos >= f.At
	default:
		due = pos == f.At
	}
	if !due {
		return nil
	}
	if !f.Persistent {
		// one-shot: only the first time the position is reached
		if atomic.AddInt64(env.counter(-1000-node), 1) != 1 {
			return nil
		}
	}
	atomic.AddInt64(env.counter(-2000-node), 1)
	switch f.Mode {
	case "panic":
		panic(fmt.Sprintf("%s: panic in node %d", InjectedMsg, node))
	case "temp":
		return baseerrors.E(baseerrors.Temporary, fmt.Sprintf("%s: temporary error in node %d", InjectedMsg, node))
	case "retriable":
		return baseerrors.E(baseerrors.Retriable, fmt.Sprintf("%s: retriable error in node %d", InjectedMsg, node))
	case "badpart":
		return errBadPart
	}
	return fmt.Errorf("%s: error in node %d", InjectedMsg, node)
}

var errBadPart = errors.New("badpart")

// Fired returns how often node's injected failure fired.
func (e *Env) Fired(node int) int { return int(atomic.LoadInt64(e.counter(-2000 - node))) }

// must turns an injected error into a panic for functions that cannot return
// an error (map, filter, ...): only "panic" mode is generated for those, so
// this is a harness invariant.
func must(err error) {
	if err != nil && err != errBadPart {
		panic(fmt.Sprintf("%s: %v", InjectedMsg, err))
	}
}

var (
	typCtx   = reflect.TypeOf((*context.Context)(nil)).Elem()
	typErr   = reflect.TypeOf((*error)(nil)).Elem()
	typInt   = reflect.TypeOf(int(0))
	typBool  = reflect.TypeOf(false)
)

func colTypes(cols []Col) []reflect.Type {
	t := make([]reflect.Type, len(cols))
	for i, c := range cols {
		t[i] = ColType(c)
	}
	return t
}

func sliceTypes(cols []Col) []reflect.Type {
	t := make([]reflect.Type, len(cols))
	for i, c := range cols {
		t[i] = reflect.SliceOf(ColType(c))
	}
	return t
}

func toRow(args []reflect.Value) Row {
	r := make(Row, len(args))
	for i, a := range args {
		r[i] = a.Interface()
	}
	return r
}

func toVal(v interface{}, t reflect.Type) reflect.Value {
	if v == nil {
		return reflect.Zero(t)
	}
	return reflect.ValueOf(v)
}

// splitCtx returns the context argument (if the function takes one) and the rest.
func splitCtx(fn *Fn, args []reflect.Value) (context.Context, []reflect.Value) {
	if fn != nil && fn.Ctx {
		return args[0].Interface().(context.Context), args[1:]
	}
	return nil, args
}

func withCtx(fn *Fn, in []reflect.Type) []reflect.Type {
	if fn != nil && fn.Ctx {
		return append([]reflect.Type{typCtx}, in...)
	}
	return in
}

func pragmas(n *Node) []bigslice.Pragma {
	var p []bigslice.Pragma
	if n.Procs > 0 {
		p = append(p, bigslice.Procs(n.Procs))
	}
	if n.Exclusive {
		p = append(p, bigslice.Exclusive)
	}
	if n.Materialize {
		p = append(p, bigslice.ExperimentalMaterialize)
	}
	return p
}

type rfState struct {
	pos, step int
	started   bool
	ended     bool
}

// Gauge is the process-wide gauge of concurrently active gauged tasks.
type Gauge struct {
	mu                 sync.Mutex
	Active, Exclusive  int
	Max                int
	Starts             int
	ExclusiveStarts    int
	Violations         []string
}

// TheGauge is shared by all programs of a process.
var TheGauge = &Gauge{}

// Reset clears the gauge.
func (g *Gauge) Reset() {
	g.mu.Lock()
	g.Active, g.Exclusive, g.Max, g.Starts, g.ExclusiveStarts, g.Violations = 0, 0, 0, 0, 0, nil
	g.mu.Unlock()
}

// Snapshot returns a copy.
func (g *Gauge) Snapshot() Gauge {
	g.mu.Lock()
	defer g.mu.Unlock()
	c := Gauge{Active: g.Active, Exclusive: g.Exclusive, Max: g.Max, Starts: g.Starts, ExclusiveStarts: g.ExclusiveStarts}
	c.Violations = append(c.Violations, g.Violations...)
	return c
}

func (g *Gauge) start(exclusive bool) {
	g.mu.Lock()
	defer g.mu.Unlock()
	g.Starts++
	if exclusive {
		g.ExclusiveStarts++
		if g.Active > 0 {
			g.Violations = append(g.Violations, fmt.Sprintf("an exclusive task started while %d other tasks were running", g.Active))
		}
		g.Exclusive++
	} else if g.Exclusive > 0 {
		g.Violations = append(g.Violations, "a task started while an exclusive task was running")
	}
	g.Active++
	if g.Active > g.Max {
		g.Max = g.Active
	}
}

func (g *Gauge) end(exclusive bool) {
	g.mu.Lock()
	g.Active--
	if exclusive {
		g.Exclusive--
	}
	g.mu.Unlock()
}

type obsState struct {
	s *Stream
}

// Build constructs the bigslice.Slice of a program.
func Build(spec *Spec, args []bigslice.Slice) bigslice.Slice {
	env := EnvOf(spec.RunID)
	if spec.PanicOnBuild > 0 {
		if n := atomic.AddInt64(env.counter(-5000), 1); int(n) == spec.PanicOnBuild {
			panic(fmt.Sprintf("%s: panic while building the slice (construction %d)", InjectedMsg, n))
		}
	}
	slices := make([]bigslice.Slice, len(spec.Nodes))
	for i := range spec.Nodes {
		slices[i] = buildNode(env, spec, i, slices, args)
	}
	return slices[len(slices)-1]
}

func buildNode(env *Env, spec *Spec, id int, slices []bigslice.Slice, args []bigslice.Slice) bigslice.Slice {
	n := &spec.Nodes[id]
	in := func(k int) bigslice.Slice { return slices[n.In[k]] }
	inSchema := func(k int) Schema { return spec.Nodes[n.In[k]].Schema }
	switch n.Op {
	case "const":
		rows := SelRows(n.Cols, n.Rows)
		cols := make([]interface{}, len(n.Cols))
		for c := range cols {
			s := reflect.MakeSlice(reflect.SliceOf(ColType(n.Cols[c])), len(rows), len(rows))
			for i, r := range rows {
				s.Index(i).Set(toVal(r[c], ColType(n.Cols[c])))
			}
			cols[c] = s.Interface()
		}
		return bigslice.Const(n.NShard, cols...)
	case "readerfunc":
		inT := append([]reflect.Type{typInt, reflect.TypeOf((*rfState)(nil))}, sliceTypes(n.Cols)...)
		ft := reflect.FuncOf(inT, []reflect.Type{typInt, typErr}, false)
		f := reflect.MakeFunc(ft, func(a []reflect.Value) []reflect.Value {
			shard := int(a[0].Int())
			st := a[1].Interface().(*rfState)
			rows := n.ShardRows[shard]
			want := a[2].Len()
			left := len(rows) - st.pos
			gauged := n.Fn != nil && n.Fn.Gauge
			if gauged && !st.started {
				st.started = true
				TheGauge.start(n.Exclusive)
			}
			if n.Fn != nil && n.Fn.SleepUs > 0 {
				time.Sleep(time.Duration(n.Fn.SleepUs) * time.Microsecond)
			}
			ret := func(k int, err error) []reflect.Value {
				ev := reflect.Zero(typErr)
				if err != nil {
					ev = reflect.ValueOf(&err).Elem()
					if gauged && !st.ended {
						st.ended = true
						TheGauge.end(n.Exclusive)
					}
				}
				return []reflect.Value{reflect.ValueOf(k), ev}
			}
			if left == 0 {
				if err := hook(env, id, n.Fn, nil, st.pos, true); err != nil {
					return ret(0, err)
				}
				return ret(0, sliceio.EOF)
			}
			c := want
			if st.step < len(n.Script) {
				c = n.Script[st.step].N
				st.step++
			}
			if c > want {
				c = want
			}
			if c > left {
				c = left
			}
			for i := 0; i < c; i++ {
				if err := hook(env, id, n.Fn, nil, st.pos+i, false); err != nil {
					// rows [0, i) were filled; report them with the error
					st.pos += i
					return ret(i, err)
				}
				for col := range n.Cols {
					a[2+col].Index(i).Set(toVal(SelVal(n.Cols[col], rows[st.pos+i][col]), ColType(n.Cols[col])))
				}
			}
			st.pos += c
			if st.pos == len(rows) && n.EOFWithRows {
				if err := hook(env, id, n.Fn, nil, st.pos, true); err != nil {
					return ret(c, err)
				}
				return ret(c, sliceio.EOF)
			}
			return ret(c, nil)
		})
		return bigslice.ReaderFunc(n.NShard, f.Interface(), pragmas(n)...)
	case "scanreader":
		text := ""
		if len(n.Lines) > 0 {
			text = strings.Join(n.Lines, "\n") + "\n"
		}
		return bigslice.ScanReader(n.NShard, func() (io.ReadCloser, error) {
			return ioutil.NopCloser(strings.NewReader(text)), nil
		})
	case "arg":
		return args[n.Arg]
	case "map":
		is := inSchema(0)
		ft := reflect.FuncOf(withCtx(n.Fn, colTypes(is.Cols)), colTypes(n.Schema.Cols), false)
		outT := colTypes(n.Schema.Cols)
		f := reflect.MakeFunc(ft, func(a []reflect.Value) []reflect.Value {
			ctx, rest := splitCtx(n.Fn, a)
			must(hook(env, id, n.Fn, ctx, -1, false))
			out := ApplyExprs(n.Fn.Exprs, toRow(rest), 0)
			vs := make([]reflect.Value, len(out))
			for i := range out {
				vs[i] = toVal(out[i], outT[i])
			}
			return vs
		})
		return bigslice.Map(in(0), f.Interface(), pragmas(n)...)
	case "filter":
		is := inSchema(0)
		ft := reflect.FuncOf(withCtx(n.Fn, colTypes(is.Cols)), []reflect.Type{typBool}, false)
		f := reflect.MakeFunc(ft, func(a []reflect.Value) []reflect.Value {
			ctx, rest := splitCtx(n.Fn, a)
			must(hook(env, id, n.Fn, ctx, -1, false))
			return []reflect.Value{reflect.ValueOf(FilterKeep(n.Fn, toRow(rest)))}
		})
		return bigslice.Filter(in(0), f.Interface(), pragmas(n)...)
	case "flatmap":
		is := inSchema(0)
		ft := reflect.FuncOf(withCtx(n.Fn, colTypes(is.Cols)), sliceTypes(n.Schema.Cols), false)
		outT := sliceTypes(n.Schema.Cols)
		f := reflect.MakeFunc(ft, func(a []reflect.Value) []reflect.Value {
			ctx, rest := splitCtx(n.Fn, a)
			must(hook(env, id, n.Fn, ctx, -1, false))
			rows := FlatmapApply(n.Fn, toRow(rest))
			vs := make([]reflect.Value, len(outT))
			for c := range vs {
				s := reflect.MakeSlice(outT[c], len(rows), len(rows))
				for i, r := range rows {
					s.Index(i).Set(toVal(r[c], outT[c].Elem()))
				}
				vs[c] = s
			}
			return vs
		})
		return bigslice.Flatmap(in(0), f.Interface(), pragmas(n)...)
	case "fold":
		is := inSchema(0)
		accT := ColType(FoldAccType(n.Fn))
		inT := append([]reflect.Type{accT}, colTypes(is.Cols[1:])...)
		ft := reflect.FuncOf(withCtx(n.Fn, inT), []reflect.Type{accT}, false)
		f := reflect.MakeFunc(ft, func(a []reflect.Value) []reflect.Value {
			ctx, rest := splitCtx(n.Fn, a)
			must(hook(env, id, n.Fn, ctx, -1, false))
			r := toRow(rest)
			return []reflect.Value{reflect.ValueOf(FoldStep(n.Fn, r[0], r[1:]))}
		})
		return bigslice.Fold(in(0), f.Interface())
	case "reduce":
		vc := n.Schema.Cols[len(n.Schema.Cols)-1]
		vt := ColType(vc)
		ft := reflect.FuncOf(withCtx(n.Fn, []reflect.Type{vt, vt}), []reflect.Type{vt}, false)
		f := reflect.MakeFunc(ft, func(a []reflect.Value) []reflect.Value {
			ctx, rest := splitCtx(n.Fn, a)
			if n.Fn != nil && n.Fn.Gauge {
				// a task that is combining is a task that is running (C14, local mode)
				TheGauge.start(false)
				if n.Fn.SleepUs > 0 {
					time.Sleep(time.Duration(n.Fn.SleepUs) * time.Microsecond)
				}
				TheGauge.end(false)
			}
			must(hook(env, id, n.Fn, ctx, -1, false))
			return []reflect.Value{reflect.ValueOf(Combine(vc, rest[0].Interface(), rest[1].Interface()))}
		})
		return bigslice.Reduce(in(0), f.Interface())
	case "head":
		return bigslice.Head(in(0), n.N)
	case "prefixed":
		return bigslice.Prefixed(in(0), n.N)
	case "reshuffle":
		return bigslice.Reshuffle(in(0))
	case "reshard":
		return bigslice.Reshard(in(0), n.N)
	case "repartition":
		is := inSchema(0)
		inT := append([]reflect.Type{typInt}, colTypes(is.Cols)...)
		ft := reflect.FuncOf(withCtx(n.Fn, inT), []reflect.Type{typInt}, false)
		f := reflect.MakeFunc(ft, func(a []reflect.Value) []reflect.Value {
			ctx, rest := splitCtx(n.Fn, a)
			nshard := int(rest[0].Int())
			if err := hook(env, id, n.Fn, ctx, -1, false); err != nil {
				if err == errBadPart {
					return []reflect.Value{reflect.ValueOf(nshard + 3)}
				}
				must(err)
			}
			return []reflect.Value{reflect.ValueOf(Partition(n.Fn, nshard, toRow(rest[1:])))}
		})
		return bigslice.Repartition(in(0), f.Interface())
	case "cogroup":
		ins := make([]bigslice.Slice, len(n.In))
		for k := range ins {
			ins[k] = in(k)
		}
		return bigslice.Cogroup(ins...)
	case "writerfunc":
		is := inSchema(0)
		inT := append([]reflect.Type{typInt, reflect.TypeOf((*obsState)(nil)), typErr}, sliceTypes(is.Cols)...)
		ft := reflect.FuncOf(inT, []reflect.Type{typErr}, false)
		f := reflect.MakeFunc(ft, func(a []reflect.Value) []reflect.Value {
			shard := int(a[0].Int())
			st := a[1].Interface().(*obsState)
			if st.s == nil {
				st.s = env.newStream(id, shard)
			}
			var rerr error
			if !a[2].IsNil() {
				rerr = a[2].Interface().(error)
			}
			k := 0
			if len(is.Cols) > 0 {
				k = a[3].Len()
			}
			env.mu.Lock()
			s := st.s
			s.Calls++
			s.Sizes = append(s.Sizes, k)
			if s.Ends > 0 {
				s.After++
			}
			pos := len(s.Rows)
			for i := 0; i < k; i++ {
				row := make(Row, len(is.Cols))
				for c := range row {
					row[c] = CopyVal(a[3+c].Index(i).Interface())
				}
				s.Rows = append(s.Rows, row)
			}
			if rerr != nil {
				s.Ends++
				if rerr == sliceio.EOF {
					s.End = "EOF"
				} else {
					s.End = rerr.Error()
				}
			}
			env.mu.Unlock()
			var werr error
			for i := 0; i <= k; i++ {
				atEOF := i == k && rerr == sliceio.EOF
				if i == k && !atEOF {
					break
				}
				if err := hook(env, id, n.Fn, nil, pos+i, atEOF); err != nil {
					werr = err
					break
				}
			}
			if werr == nil {
				return []reflect.Value{reflect.Zero(typErr)}
			}
			return []reflect.Value{reflect.ValueOf(&werr).Elem()}
		})
		return bigslice.WriterFunc(in(0), f.Interface())
	case "scan":
		is := inSchema(0)
		return bigslice.Scan(in(0), func(shard int, sc *sliceio.Scanner) error {
			s := env.newStream(id, shard)
			ptrs := make([]interface{}, len(is.Cols))
			for c := range ptrs {
				ptrs[c] = reflect.New(ColType(is.Cols[c])).Interface()
			}
			ctx := context.Background()
			pos := 0
			for sc.Scan(ctx, ptrs...) {
				row := make(Row, len(ptrs))
				for c := range row {
					row[c] = CopyVal(reflect.ValueOf(ptrs[c]).Elem().Interface())
				}
				env.mu.Lock()
				s.Rows = append(s.Rows, row)
				s.Calls++
				env.mu.Unlock()
				if err := hook(env, id, n.Fn, nil, pos, false); err != nil {
					return err
				}
				pos++
			}
			err := sc.Err()
			env.mu.Lock()
			s.Ends++
			if err == nil {
				s.End = "EOF"
			} else {
				s.End = err.Error()
			}
			env.mu.Unlock()
			if err == nil {
				if herr := hook(env, id, n.Fn, nil, pos, true); herr != nil {
					return herr
				}
			}
			return err
		})
	case "cache":
		return bigslice.Cache(context.Background(), in(0), spec.CacheBase+n.CachePrefix)
	case "cachepartial":
		return bigslice.CachePartial(context.Background(), in(0), spec.CacheBase+n.CachePrefix)
	case "readcache":
		return bigslice.ReadCache(context.Background(), in(0), spec.Nodes[n.In[0]].Shards, spec.CacheBase+n.CachePrefix)
	}
	panic("progen: unknown op " + n.Op)
}
