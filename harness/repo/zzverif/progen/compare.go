//go:build verif
// +build verif

package progen

import (
	"fmt"
	"sort"
)

func bag(s Schema, rows []Row) map[string]int {
	m := map[string]int{}
	for _, r := range rows {
		m[CanonRow(s, r)]++
	}
	return m
}

func bagDiff(got, want map[string]int) error {
	for _, k := range sortedKeys(got) {
		if got[k] > want[k] {
			if want[k] == 0 {
				return fmt.Errorf("row %s was produced but is not in the reference result (invented)", k)
			}
			return fmt.Errorf("row %s was produced %d times, reference has it %d times (duplicated)", k, got[k], want[k])
		}
	}
	for _, k := range sortedKeys(want) {
		if got[k] < want[k] {
			return fmt.Errorf("row %s is in the reference result %d times but was produced %d times (lost)", k, want[k], got[k])
		}
	}
	return nil
}

func subBag(got, of map[string]int) error {
	for _, k := range sortedKeys(got) {
		if got[k] > of[k] {
			return fmt.Errorf("row %s was produced %d times, the input of head has it %d times", k, got[k], of[k])
		}
	}
	return nil
}

func seqDiff(s Schema, got, want []Row) error {
	for i := 0; i < len(got) && i < len(want); i++ {
		if CanonRow(s, got[i]) != CanonRow(s, want[i]) {
			return fmt.Errorf("row %d is %s, reference order has %s", i, CanonRow(s, got[i]), CanonRow(s, want[i]))
		}
	}
	if len(got) != len(want) {
		return fmt.Errorf("%d rows produced, reference has %d", len(got), len(want))
	}
	return nil
}

// CheckRows compares the rows obtained by scanning a result with the
// reference stage st: the multiset always, the order where it is fixed.
func CheckRows(st *Stage, scanned []Row) error {
	s := st.Schema
	if st.Sub {
		if err := subBag(bag(s, scanned), bag(s, st.Rows())); err != nil {
			return err
		}
		if len(scanned) < st.SubMin || len(scanned) > st.SubMax {
			return fmt.Errorf("head produced %d rows, documented bounds are [%d, %d]", len(scanned), st.SubMin, st.SubMax)
		}
		return nil
	}
	if err := bagDiff(bag(s, scanned), bag(s, st.Rows())); err != nil {
		return err
	}
	if st.Level == LShardSeq || st.Level == LGlobalSeq {
		if err := seqDiff(s, scanned, st.Rows()); err != nil {
			return fmt.Errorf("order fixed by the program (%s) not respected: %v", st.Level, err)
		}
	}
	if st.Cogroup != nil {
		for _, r := range scanned {
			if err := st.Cogroup.CheckCogroupRow(r); err != nil {
				return err
			}
		}
	}
	return nil
}

// CheckShards checks what is fixed about the per-shard layout, given the rows
// of each shard (as seen by an observer at that node).
func CheckShards(st *Stage, shards [][]Row) error {
	s := st.Schema
	if len(shards) != st.NShard {
		return fmt.Errorf("%d shards observed, reference has %d", len(shards), st.NShard)
	}
	if st.Sub {
		for i, sh := range shards {
			if len(sh) > st.PerShardMax {
				return fmt.Errorf("shard %d holds %d rows after head(%d)", i, len(sh), st.PerShardMax)
			}
			if st.Level == LShardBag {
				if err := subBag(bag(s, sh), bag(s, st.Shards[i])); err != nil {
					return fmt.Errorf("shard %d: %v", i, err)
				}
			}
		}
		return nil
	}
	switch st.Level {
	case LShardSeq:
		for i := range shards {
			if err := seqDiff(s, shards[i], st.Shards[i]); err != nil {
				return fmt.Errorf("shard %d: %v", i, err)
			}
		}
	case LShardBag:
		for i := range shards {
			if err := bagDiff(bag(s, shards[i]), bag(s, st.Shards[i])); err != nil {
				return fmt.Errorf("shard %d: %v", i, err)
			}
		}
	case LGlobalSeq:
		// contiguous blocks in shard order with sizes differing by at most one
		lo, hi := len(st.All)/st.NShard, (len(st.All)+st.NShard-1)/st.NShard
		var cat []Row
		for i, sh := range shards {
			if st.Even && (len(sh) < lo || len(sh) > hi) {
				return fmt.Errorf("shard %d holds %d rows; an even split of %d rows over %d shards gives %d..%d", i, len(sh), len(st.All), st.NShard, lo, hi)
			}
			cat = append(cat, sh...)
		}
		if err := seqDiff(s, cat, st.All); err != nil {
			return err
		}
	}
	if st.Coloc > 0 && st.Coloc <= len(s.Cols) {
		where := map[string]int{}
		for i, sh := range shards {
			for _, r := range sh {
				k := keyOf(r, st.Coloc)
				if j, ok := where[k]; ok && j != i {
					return fmt.Errorf("rows with equal key %s are in shards %d and %d", k, j, i)
				}
				where[k] = i
			}
		}
	}
	return nil
}

// downstreamHead tells whether a Head node is reachable downstream of node id.
func downstreamHead(spec *Spec, id int) bool {
	reach := map[int]bool{id: true}
	for i := id + 1; i < len(spec.Nodes); i++ {
		for _, k := range spec.Nodes[i].In {
			if reach[k] {
				reach[i] = true
				if spec.Nodes[i].Op == "head" {
					return true
				}
			}
		}
	}
	return false
}

// uniquePath tells whether node id and every node downstream of it on the way
// to the root has exactly one consumer edge (so it is computed exactly once
// in a failure-free run).
func uniquePath(spec *Spec, id int) bool {
	consumers := make([]int, len(spec.Nodes))
	for i := range spec.Nodes {
		for _, k := range spec.Nodes[i].In {
			consumers[k]++
		}
	}
	cur := id
	for cur != spec.Root() {
		if consumers[cur] != 1 {
			return false
		}
		next := -1
		for i := cur + 1; i < len(spec.Nodes); i++ {
			for _, k := range spec.Nodes[i].In {
				if k == cur {
					next = i
				}
			}
		}
		if next < 0 {
			return false
		}
		cur = next
	}
	return true
}

// ReachesRoot tells whether node id contributes to the root.
func ReachesRoot(spec *Spec, id int) bool { return reachesRoot(spec, id) }

func reachesRoot(spec *Spec, id int) bool {
	need := map[int]bool{spec.Root(): true}
	for i := spec.Root(); i >= 0; i-- {
		if need[i] {
			for _, k := range spec.Nodes[i].In {
				need[k] = true
			}
		}
	}
	return need[id]
}

// CheckObservers applies the "every row of every shard exactly once, followed
// by end-of-stream" oracle to every observer (WriterFunc, Scan) of a
// failure-free run, and cross-checks the root observer against the scan.
func CheckObservers(spec *Spec, ref *Ref, env *Env, scanned []Row) error {
	return CheckObserversOpt(spec, ref, env, scanned, true)
}

// CheckObserversOpt: with once == false a task may legitimately have been
// evaluated more than once (an executor that re-runs tasks it believes lost):
// every evaluation must then have seen the same rows, at least once.
func CheckObserversOpt(spec *Spec, ref *Ref, env *Env, scanned []Row, once bool) error {
	for id := range spec.Nodes {
		n := &spec.Nodes[id]
		if n.Op != "writerfunc" && n.Op != "scan" {
			continue
		}
		if !reachesRoot(spec, id) {
			continue
		}
		st := ref.Stages[n.In[0]]
		streams := env.StreamsOf(id)
		weak := downstreamHead(spec, id)
		uniq := once && uniquePath(spec, id)
		byShard := make([][]*Stream, st.NShard)
		for _, s := range streams {
			if s.Shard < 0 || s.Shard >= st.NShard {
				return fmt.Errorf("observer node %d: callback for shard %d, slice has %d shards", id, s.Shard, st.NShard)
			}
			byShard[s.Shard] = append(byShard[s.Shard], s)
		}
		first := make([][]Row, st.NShard)
		for sh, ss := range byShard {
			if !weak {
				if len(ss) == 0 {
					return fmt.Errorf("observer node %d (%s): shard %d was never observed", id, n.Op, sh)
				}
				if uniq && len(ss) != 1 {
					return fmt.Errorf("observer node %d (%s): shard %d was observed by %d reader instances, expected exactly one in a failure-free run", id, n.Op, sh, len(ss))
				}
			}
			for k, s := range ss {
				complete := s.Ends > 0
				if !weak {
					if !complete {
						return fmt.Errorf("observer node %d (%s) shard %d: stream never saw end-of-stream", id, n.Op, sh)
					}
				}
				if complete {
					if s.End != "EOF" {
						return fmt.Errorf("observer node %d (%s) shard %d: stream ended with error %q in a failure-free run", id, n.Op, sh, s.End)
					}
					if s.Ends != 1 || s.After != 0 {
						return fmt.Errorf("observer node %d (%s) shard %d: end-of-stream delivered %d times, %d calls after it", id, n.Op, sh, s.Ends, s.After)
					}
				}
				if complete && first[sh] == nil {
					first[sh] = s.Rows
					if first[sh] == nil {
						first[sh] = []Row{}
					}
				} else if complete {
					if err := bagDiff(bag(st.Schema, s.Rows), bag(st.Schema, first[sh])); err != nil {
						return fmt.Errorf("observer node %d (%s) shard %d: recomputation %d saw different rows: %v", id, n.Op, sh, k, err)
					}
				}
				if !complete && !st.Sub {
					// a stream cut short by a downstream head: must be a prefix / sub-multiset
					switch st.Level {
					case LShardSeq:
						if len(s.Rows) > len(st.Shards[sh]) {
							return fmt.Errorf("observer node %d shard %d: saw %d rows, shard has %d", id, sh, len(s.Rows), len(st.Shards[sh]))
						}
						if err := seqDiff(st.Schema, s.Rows, st.Shards[sh][:len(s.Rows)]); err != nil {
							return fmt.Errorf("observer node %d shard %d (partial stream): %v", id, sh, err)
						}
					default:
						if err := subBag(bag(st.Schema, s.Rows), bag(st.Schema, st.Rows())); err != nil {
							return fmt.Errorf("observer node %d shard %d (partial stream): %v", id, sh, err)
						}
					}
				}
			}
		}
		if weak {
			continue
		}
		if err := CheckShards(st, first); err != nil {
			return fmt.Errorf("observer node %d (%s): %v", id, n.Op, err)
		}
		var cat []Row
		for _, sh := range first {
			cat = append(cat, sh...)
		}
		if err := CheckRows(st, cat); err != nil {
			return fmt.Errorf("observer node %d (%s): %v", id, n.Op, err)
		}
		if id == spec.Root() && n.Op == "writerfunc" {
			// the scan of the result concatenates the root shards in shard order
			if len(cat) != len(scanned) {
				return fmt.Errorf("scan delivered %d rows, the root tasks produced %d", len(scanned), len(cat))
			}
			for i := range cat {
				if RowKey(cat[i]) != RowKey(scanned[i]) {
					return fmt.Errorf("scan row %d is %s, concatenation of root shards in shard order has %s", i, RowKey(scanned[i]), RowKey(cat[i]))
				}
			}
		}
	}
	return nil
}

// Summary returns a short description of a program for samples.
func Summary(spec *Spec) map[string]interface{} {
	var ops []string
	for i, n := range spec.Nodes {
		s := fmt.Sprintf("%d:%s", i, n.Op)
		if len(n.In) > 0 {
			s += fmt.Sprint(n.In)
		}
		s += fmt.Sprintf("%s x%d", n.Schema.String(), n.Shards)
		ops = append(ops, s)
	}
	rows := 0
	for _, n := range spec.Nodes {
		rows += len(n.Rows) + len(n.Lines)
		for _, sr := range n.ShardRows {
			rows += len(sr)
		}
	}
	return map[string]interface{}{"nodes": ops, "source_rows": rows}
}

var _ = sort.Strings
