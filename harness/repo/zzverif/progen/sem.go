//go:build verif
// +build verif

package progen

import (
	"fmt"
	"reflect"

	"github.com/grailbio/bigslice/zzverif/vgen"
)

// Universe indices used by the function algebra.
const (
	TInt     = 0
	TString  = 1
	TInt64   = 2
	TUint16  = 4
	TFloat64 = 7
)

// ApplyExprs evaluates column expressions on a row; j is the flatmap output
// index (0 for map).
func ApplyExprs(exprs []Expr, row Row, j int) Row {
	var h int
	hashed := false
	out := make(Row, len(exprs))
	for i, e := range exprs {
		switch e.K {
		case "col":
			out[i] = row[e.I]
		case "len":
			out[i] = reflect.ValueOf(row[e.I]).Len()
		case "const":
			out[i] = SelVal(e.T, e.M)
		case "hash":
			if !hashed {
				h = HashVals(row...)
				hashed = true
			}
			out[i] = SelVal(e.T, (h+j*7919)%e.M)
		default:
			panic("progen: bad expr " + e.K)
		}
	}
	return out
}

// ExprType returns the column code of an expression given the input schema.
func ExprType(e Expr, in Schema) Col {
	switch e.K {
	case "col":
		return in.Cols[e.I]
	case "len":
		return TInt
	}
	return e.T
}

// FilterKeep is the generated filter predicate.
func FilterKeep(fn *Fn, row Row) bool { return HashVals(row...)%fn.M < fn.T }

// FlatmapFan is the number of output rows for an input row.
func FlatmapFan(fn *Fn, row Row) int { return HashVals(row...) % fn.M }

// FlatmapApply returns the output rows for an input row.
func FlatmapApply(fn *Fn, row Row) []Row {
	k := FlatmapFan(fn, row)
	out := make([]Row, k)
	for j := range out {
		out[j] = ApplyExprs(fn.Exprs, row, j)
	}
	return out
}

// FoldAccType is the accumulator column code of a fold function.
func FoldAccType(fn *Fn) Col {
	if fn.Kind == "maxstr" {
		return TString
	}
	return TInt
}

// FoldStep is the generated fold function (order-insensitive).
func FoldStep(fn *Fn, acc interface{}, vals Row) interface{} {
	switch fn.Kind {
	case "count":
		return acc.(int) + 1
	case "sumhash":
		return acc.(int) + HashVals(vals...)%1000
	case "maxstr":
		s := fmt.Sprintf("m%03d", HashVals(vals...)%1000)
		if s > acc.(string) {
			return s
		}
		return acc
	}
	panic("progen: bad fold kind " + fn.Kind)
}

// Reducible tells whether a column code has a generated combiner.
func Reducible(c Col) bool {
	switch c {
	case TInt, TInt64, TString, TFloat64, TUint16:
		return true
	}
	return false
}

// Combine is the generated (commutative, associative) reduce combiner.
func Combine(c Col, a, b interface{}) interface{} {
	switch c {
	case TInt:
		return a.(int) + b.(int)
	case TInt64:
		return a.(int64) ^ b.(int64)
	case TString:
		if a.(string) > b.(string) {
			return a
		}
		return b
	case TFloat64:
		if a.(float64) > b.(float64) {
			return a
		}
		return b
	case TUint16:
		return a.(uint16) + b.(uint16)
	}
	panic("progen: no combiner for " + ColName(c))
}

// Partition is the generated repartition function.
func Partition(fn *Fn, nshard int, row Row) int {
	switch fn.Kind {
	case "const":
		return fn.M % nshard
	case "col0":
		return HashVals(row[0]) % nshard
	}
	return HashVals(row...) % nshard
}

// ---------------------------------------------------------------------------

// Annotate computes Schema and Shards of every node and validates the
// program's well-typedness (as the generator understands it). It returns an
// error for a malformed Spec.
func Annotate(s *Spec) error {
	for i := range s.Nodes {
		n := &s.Nodes[i]
		in := func(k int) *Node {
			if k >= len(n.In) || n.In[k] < 0 || n.In[k] >= i {
				panic(fmt.Sprintf("node %d (%s): bad input %d", i, n.Op, k))
			}
			return &s.Nodes[n.In[k]]
		}
		var err error
		func() {
			defer func() {
				if r := recover(); r != nil {
					err = fmt.Errorf("%v", r)
				}
			}()
			switch n.Op {
			case "const":
				n.Schema = Schema{append([]Col{}, n.Cols...), 1}
				n.Shards = n.NShard
			case "readerfunc":
				n.Schema = Schema{append([]Col{}, n.Cols...), 1}
				n.Shards = n.NShard
				if len(n.ShardRows) != n.NShard {
					panic("readerfunc: shard_rows/nshard mismatch")
				}
			case "scanreader":
				n.Schema = Schema{[]Col{TString}, 1}
				n.Shards = n.NShard
			case "arg":
				n.Schema = s.Args[n.Arg].Schema
				n.Shards = s.Args[n.Arg].Shards
			case "map":
				a := in(0)
				cols := make([]Col, len(n.Fn.Exprs))
				for j, e := range n.Fn.Exprs {
					cols[j] = ExprType(e, a.Schema)
				}
				n.Schema = Schema{cols, a.Schema.Prefix}
				n.Shards = a.Shards
			case "flatmap":
				a := in(0)
				cols := make([]Col, len(n.Fn.Exprs))
				for j, e := range n.Fn.Exprs {
					cols[j] = ExprType(e, a.Schema)
				}
				n.Schema = Schema{cols, a.Schema.Prefix}
				n.Shards = a.Shards
			case "filter", "head", "writerfunc", "cache", "cachepartial":
				a := in(0)
				n.Schema = a.Schema
				n.Shards = a.Shards
			case "readcache":
				a := in(0) // the node whose cache files are read (for typing only)
				n.Schema = Schema{a.Schema.Cols, 1}
				n.Shards = a.Shards
			case "prefixed":
				a := in(0)
				if n.N < 1 || n.N > len(a.Schema.Cols) {
					panic("prefixed: bad prefix")
				}
				n.Schema = Schema{a.Schema.Cols, n.N}
				n.Shards = a.Shards
			case "scan":
				a := in(0)
				n.Schema = Schema{nil, a.Schema.Prefix}
				n.Shards = a.Shards
			case "fold":
				a := in(0)
				if len(a.Schema.Cols) < 2 {
					panic("fold: need >= 2 columns")
				}
				switch a.Schema.Cols[0] {
				case TInt, TString, TInt64:
				default:
					panic("fold: key type")
				}
				n.Schema = Schema{[]Col{a.Schema.Cols[0], FoldAccType(n.Fn)}, a.Schema.Prefix}
				n.Shards = a.Shards
			case "reduce":
				a := in(0)
				if !a.Schema.KeyOK() || len(a.Schema.Cols)-a.Schema.Prefix != 1 || !Reducible(a.Schema.Cols[len(a.Schema.Cols)-1]) {
					panic("reduce: schema " + a.Schema.String())
				}
				n.Schema = a.Schema
				n.Shards = a.Shards
			case "reshuffle", "repartition":
				a := in(0)
				if n.Op == "reshuffle" && !a.Schema.KeyOK() {
					panic("reshuffle: schema " + a.Schema.String())
				}
				n.Schema = a.Schema
				n.Shards = a.Shards
			case "reshard":
				a := in(0)
				if !a.Schema.KeyOK() || n.N < 1 {
					panic("reshard: schema " + a.Schema.String())
				}
				n.Schema = a.Schema
				n.Shards = n.N
			case "cogroup":
				if len(n.In) == 0 {
					panic("cogroup: no inputs")
				}
				a := in(0)
				if !a.Schema.KeyOK() {
					panic("cogroup: schema " + a.Schema.String())
				}
				p := a.Schema.Prefix
				cols := append([]Col{}, a.Schema.Cols[:p]...)
				shards := 0
				for k := range n.In {
					b := in(k)
					if b.Schema.Prefix != p || len(b.Schema.Cols) < p {
						panic("cogroup: prefix mismatch")
					}
					for c := 0; c < p; c++ {
						if b.Schema.Cols[c] != cols[c] {
							panic("cogroup: key type mismatch")
						}
					}
					for _, c := range b.Schema.Cols[p:] {
						if c >= SliceOf {
							panic("cogroup: nested slice column")
						}
						cols = append(cols, c+SliceOf)
					}
					if b.Shards > shards {
						shards = b.Shards
					}
				}
				n.Schema = Schema{cols, p}
				n.Shards = shards
			default:
				panic("unknown op " + n.Op)
			}
		}()
		if err != nil {
			return fmt.Errorf("node %d (%s): %v", i, n.Op, err)
		}
		if n.Shards < 1 {
			return fmt.Errorf("node %d (%s): %d shards", i, n.Op, n.Shards)
		}
	}
	return nil
}

// SelRows converts selector rows to value rows.
func SelRows(cols []Col, sel [][]int) []Row {
	out := make([]Row, len(sel))
	for i, r := range sel {
		row := make(Row, len(cols))
		for c := range cols {
			row[c] = SelVal(cols[c], r[c])
		}
		out[i] = row
	}
	return out
}

var _ = vgen.NumKeyable
