//go:build verif
// +build verif

// Package progen generates bigslice programs as data (Spec), builds the real
// bigslice.Slice for a Spec, and evaluates the same Spec sequentially with a
// reference interpreter of the documented operator meanings.
package progen

import (
	"fmt"
	"hash/fnv"
	"reflect"
	"sort"
	"strings"

	"github.com/grailbio/bigslice/zzverif/vgen"
)

// A column type code: 0 <= c < 100 is vgen.Universe[c]; c >= 100 is a slice of
// vgen.Universe[c-100] (produced by Cogroup).
type Col = int

// SliceOf is the offset of slice-typed column codes.
const SliceOf = 100

// ColType returns the reflect type of a column code.
func ColType(c Col) reflect.Type {
	if c >= SliceOf {
		return reflect.SliceOf(vgen.Universe[c-SliceOf].Typ)
	}
	return vgen.Universe[c].Typ
}

// Keyable tells whether a column code can be a key column.
func Keyable(c Col) bool { return c < vgen.NumKeyable }

// ColName names a column code.
func ColName(c Col) string {
	if c >= SliceOf {
		return "[]" + vgen.Universe[c-SliceOf].Name
	}
	return vgen.Universe[c].Name
}

// Schema is the static type of a node's output.
type Schema struct {
	Cols   []Col `json:"cols"`
	Prefix int   `json:"prefix"` // as reported by Slice.Prefix(); may exceed len(Cols) (inherited)
}

func (s Schema) String() string {
	n := make([]string, len(s.Cols))
	for i, c := range s.Cols {
		n[i] = ColName(c)
	}
	return fmt.Sprintf("<%s>/%d", strings.Join(n, ","), s.Prefix)
}

// KeyOK tells whether the schema's prefix is usable by keyed operators.
func (s Schema) KeyOK() bool {
	if s.Prefix < 1 || s.Prefix > len(s.Cols) {
		return false
	}
	for i := 0; i < s.Prefix; i++ {
		if !Keyable(s.Cols[i]) {
			return false
		}
	}
	return true
}

// Expr computes one output column of a generated function.
type Expr struct {
	K string `json:"k"`           // col | hash | len | const
	I int    `json:"i,omitempty"` // col / len: input column
	T Col    `json:"t,omitempty"` // hash / const: result type
	M int    `json:"m,omitempty"` // hash: modulus; const: selector
}

// Fail describes an injected failure of a generated function (C06).
type Fail struct {
	Mode       string `json:"mode"` // error | temp | retriable | panic | badpart
	At         int    `json:"at"`   // fail at the call with this ordinal (0-based); for readers/writers: at this row position
	Persistent bool   `json:"persistent"`
	AtEOF      bool   `json:"at_eof,omitempty"` // readers/writers: fail at the end-of-stream call
}

// Fn describes a generated user function.
type Fn struct {
	Kind   string `json:"kind,omitempty"` // fold: count|sumhash|maxstr ; repartition: hash|const|col0
	Exprs  []Expr `json:"exprs,omitempty"`
	M      int    `json:"m,omitempty"` // filter modulus / flatmap fan-out modulus / repartition const
	T      int    `json:"t,omitempty"` // filter threshold
	Ctx    bool   `json:"ctx,omitempty"`
	Count  bool   `json:"count,omitempty"` // increment the user metric counter on every call
	Fail   *Fail  `json:"fail,omitempty"`
	YieldN int    `json:"yield,omitempty"` // call runtime.Gosched every YieldN calls (C19)
	Gauge   bool  `json:"gauge,omitempty"`    // readerfunc: maintain the gauge of concurrently active tasks (C14)
	SleepUs int   `json:"sleep_us,omitempty"` // readerfunc: sleep this long per call
}

// Node is one operator of a program.
type Node struct {
	Op string `json:"op"`
	In []int  `json:"in,omitempty"`

	// sources
	Cols      []Col      `json:"cols,omitempty"`
	NShard    int        `json:"nshard,omitempty"`
	Rows      [][]int    `json:"rows,omitempty"`       // const: selector rows
	ShardRows [][][]int  `json:"shard_rows,omitempty"` // readerfunc: per shard
	Script    []vgen.Chunk `json:"script,omitempty"`   // readerfunc emission script
	EOFWithRows bool     `json:"eof_with_rows,omitempty"`
	Lines     []string   `json:"lines,omitempty"` // scanreader
	Arg       int        `json:"arg,omitempty"`   // arg: index of the Result argument

	N  int `json:"n,omitempty"` // head count / prefixed prefix / reshard count
	Fn *Fn `json:"fn,omitempty"`

	Procs       int  `json:"procs,omitempty"`
	Exclusive   bool `json:"exclusive,omitempty"`
	Materialize bool `json:"materialize,omitempty"`

	CachePrefix string `json:"cache_prefix,omitempty"`

	// computed by Annotate
	Schema Schema `json:"schema"`
	Shards int    `json:"shards"`
}

// ArgInfo describes a Result argument of a program: the program that produced it.
type ArgInfo struct {
	Schema Schema `json:"schema"`
	Shards int    `json:"shards"`
}

// Spec is a whole program. It is gob- and JSON-encodable and is itself the
// argument of the registered bigslice.Func, so it travels to workers through
// the invocation codec.
type Spec struct {
	RunID int       `json:"run_id"`
	// PanicOnBuild > 0: the PanicOnBuild-th construction of this program's slice (1 = on the driver,
	// 2 = the first worker that compiles the invocation, ...) panics.
	PanicOnBuild int `json:"panic_on_build,omitempty"`
	// CacheBase is prepended to the cache prefix of Cache/CachePartial/ReadCache nodes.
	CacheBase string `json:"cache_base,omitempty"`
	Nodes []Node    `json:"nodes"`
	Args  []ArgInfo `json:"args,omitempty"`
}

// Root returns the index of the root node.
func (s *Spec) Root() int { return len(s.Nodes) - 1 }

// ---------------------------------------------------------------------------
// values

// Row is one row.
type Row = []interface{}

// ValKey returns a canonical string for a value; nil and empty slices/maps are
// equivalent.
func ValKey(v interface{}) string {
	var b strings.Builder
	valKey(&b, reflect.ValueOf(v))
	return b.String()
}

// BagKey is ValKey with the elements of (non-byte) slices sorted: the
// canonical form of a Cogroup value column, whose order is not fixed.
func BagKey(v interface{}) string {
	var b strings.Builder
	valKeyOpt(&b, reflect.ValueOf(v), true)
	return b.String()
}

func valKey(b *strings.Builder, v reflect.Value) { valKeyOpt(b, v, false) }

func valKeyOpt(b *strings.Builder, v reflect.Value, bag bool) {
	if !v.IsValid() {
		b.WriteString("nil")
		return
	}
	switch v.Kind() {
	case reflect.Slice:
		if v.Type().Elem().Kind() == reflect.Uint8 {
			bs := v.Bytes()
			if bag {
				// a Cogroup value column of uint8 is a []byte as well: compare as a multiset
				bs = append([]byte{}, bs...)
				sort.Slice(bs, func(i, j int) bool { return bs[i] < bs[j] })
			}
			fmt.Fprintf(b, "b%q", string(bs))
			return
		}
		if bag {
			el := make([]string, v.Len())
			for i := range el {
				var eb strings.Builder
				valKeyOpt(&eb, v.Index(i), true)
				el[i] = eb.String()
			}
			sort.Strings(el)
			b.WriteByte('[')
			b.WriteString(strings.Join(el, ","))
			b.WriteString(",]")
			return
		}
		b.WriteByte('[')
		for i := 0; i < v.Len(); i++ {
			valKey(b, v.Index(i))
			b.WriteByte(',')
		}
		b.WriteByte(']')
	case reflect.Map:
		keys := v.MapKeys()
		ks := make([]string, len(keys))
		for i, k := range keys {
			var kb strings.Builder
			valKey(&kb, k)
			kb.WriteByte(':')
			valKey(&kb, v.MapIndex(k))
			ks[i] = kb.String()
		}
		sort.Strings(ks)
		b.WriteByte('{')
		b.WriteString(strings.Join(ks, ","))
		b.WriteByte('}')
	case reflect.Struct:
		b.WriteByte('(')
		for i := 0; i < v.NumField(); i++ {
			valKey(b, v.Field(i))
			b.WriteByte(';')
		}
		b.WriteByte(')')
	case reflect.String:
		fmt.Fprintf(b, "%q", v.String())
	case reflect.Float64, reflect.Float32:
		fmt.Fprintf(b, "f%v", v.Float())
	case reflect.Bool:
		fmt.Fprintf(b, "%v", v.Bool())
	case reflect.Int, reflect.Int8, reflect.Int16, reflect.Int32, reflect.Int64:
		fmt.Fprintf(b, "%d", v.Int())
	case reflect.Uint, reflect.Uint8, reflect.Uint16, reflect.Uint32, reflect.Uint64:
		fmt.Fprintf(b, "u%d", v.Uint())
	default:
		fmt.Fprintf(b, "%v", v.Interface())
	}
}

// RowKey returns a canonical string for a row.
func RowKey(r Row) string {
	var b strings.Builder
	for _, v := range r {
		valKey(&b, reflect.ValueOf(v))
		b.WriteByte('|')
	}
	return b.String()
}

// CanonRow returns the canonical string of a row of the given schema: Cogroup
// value columns (slice codes) are compared as multisets.
func CanonRow(s Schema, r Row) string {
	var b strings.Builder
	for i, v := range r {
		if i < len(s.Cols) && s.Cols[i] >= SliceOf {
			b.WriteString(BagKey(v))
		} else {
			valKey(&b, reflect.ValueOf(v))
		}
		b.WriteByte('|')
	}
	return b.String()
}

// HashVals hashes values to a non-negative int. It is insensitive to the
// order of slice elements, so that generated functions applied to Cogroup
// output are deterministic.
func HashVals(vals ...interface{}) int {
	h := fnv.New64a()
	for _, v := range vals {
		h.Write([]byte(BagKey(v)))
		h.Write([]byte{0})
	}
	return int(h.Sum64() >> 1 & 0x3fffffffffffffff)
}

// CopyVal deep-copies a value that may share memory with a frame.
func CopyVal(v interface{}) interface{} {
	rv := reflect.ValueOf(v)
	switch rv.Kind() {
	case reflect.Slice:
		if rv.IsNil() {
			return v
		}
		c := reflect.MakeSlice(rv.Type(), rv.Len(), rv.Len())
		for i := 0; i < rv.Len(); i++ {
			c.Index(i).Set(reflect.ValueOf(CopyVal(rv.Index(i).Interface())))
		}
		return c.Interface()
	case reflect.Map:
		if rv.IsNil() {
			return v
		}
		c := reflect.MakeMap(rv.Type())
		for _, k := range rv.MapKeys() {
			c.SetMapIndex(k, rv.MapIndex(k))
		}
		return c.Interface()
	}
	return v
}

// SelVal returns the value of column code c for selector k.
func SelVal(c Col, k int) interface{} {
	if c >= SliceOf {
		n := k % 3
		s := reflect.MakeSlice(ColType(c), n, n)
		for i := 0; i < n; i++ {
			s.Index(i).Set(reflect.ValueOf(vgen.Universe[c-SliceOf].Val(k + i)))
		}
		return s.Interface()
	}
	return vgen.Universe[c].Val(k)
}

// LessVal compares two values of keyable column code c.
func LessVal(c Col, a, b interface{}) bool { return vgen.Universe[c].Less(a, b) }
