//go:build verif
// +build verif

package progen

import (
	"context"
	"fmt"
	"reflect"

	"github.com/grailbio/bigslice"
	"github.com/grailbio/bigslice/frame"
	"github.com/grailbio/bigslice/sliceio"
	"github.com/grailbio/bigslice/slicetype"
)

// Type returns the slicetype of a schema (prefix clamped to the column count).
func (s Schema) Type() slicetype.Type {
	p := s.Prefix
	if p > len(s.Cols) {
		p = len(s.Cols)
	}
	if p < 1 {
		p = 1
	}
	return schemaType{slicetype.New(colTypes(s.Cols)...), p}
}

type schemaType struct {
	slicetype.Type
	p int
}

func (t schemaType) Prefix() int { return t.p }

// FrameOf builds a frame holding rows.
func FrameOf(s Schema, rows []Row) frame.Frame {
	f := frame.Make(s.Type(), len(rows), len(rows))
	for c := range s.Cols {
		col := f.Value(c)
		t := ColType(s.Cols[c])
		for i, r := range rows {
			col.Index(i).Set(toVal(r[c], t))
		}
	}
	return f
}

// FrameRows extracts deep copies of rows [0, n) of a frame.
func FrameRows(f frame.Frame, n int) []Row {
	out := make([]Row, n)
	for i := 0; i < n; i++ {
		r := make(Row, f.NumOut())
		for c := range r {
			r[c] = CopyVal(f.Index(c, i).Interface())
		}
		out[i] = r
	}
	return out
}

const guardRows = 2
const sentinelSel = 5

// Dest is a destination view inside a larger parent frame whose other rows
// hold sentinel values.
type Dest struct {
	s      Schema
	parent frame.Frame
	View   frame.Frame
	n      int
}

func sentinelRow(s Schema) Row {
	r := make(Row, len(s.Cols))
	for c := range r {
		r[c] = SelVal(s.Cols[c], sentinelSel)
	}
	return r
}

// NewDest allocates a destination view of n rows with guard rows around it.
func NewDest(s Schema, n int) *Dest {
	total := n + 2*guardRows
	rows := make([]Row, total)
	for i := range rows {
		rows[i] = sentinelRow(s)
	}
	p := FrameOf(s, rows)
	// the destination's key prefix is the caller's business: it varies with the size (see vgen.NewDest)
	view := p.Slice(guardRows, guardRows+n)
	if len(s.Cols) > 0 {
		view = view.Prefixed(1 + n%len(s.Cols))
	}
	return &Dest{s: s, parent: p, View: view, n: n}
}

// CheckGuards reports an error if a row outside the view was modified.
func (d *Dest) CheckGuards() error {
	want := RowKey(sentinelRow(d.s))
	total := d.n + 2*guardRows
	all := FrameRows(d.parent, total)
	for i := 0; i < total; i++ {
		if i >= guardRows && i < guardRows+d.n {
			continue
		}
		if RowKey(all[i]) != want {
			return fmt.Errorf("row %d of the destination's parent storage (outside the %d-row view at offset %d) was modified: %s", i, d.n, guardRows, RowKey(all[i]))
		}
	}
	return nil
}

// ReadResult is what Drain observed.
type ReadResult struct {
	Rows  []Row
	Err   error // nil: clean EOF
	Reads int
}

// Drain reads r to the end with destination views following sizes (cycled)
// and checks the Reader contract on the way: 0 <= n <= len(dest), rows
// outside the destination view untouched, frames delivered earlier unchanged.
func Drain(ctx context.Context, r sliceio.Reader, s Schema, sizes []int, maxReads int) (res ReadResult, contract error) {
	type kept struct {
		f    frame.Frame
		rows []Row
	}
	var keep []kept
	defer func() {
		if contract != nil {
			return
		}
		for i, k := range keep {
			now := FrameRows(k.f, len(k.rows))
			for j := range now {
				if RowKey(now[j]) != RowKey(k.rows[j]) {
					contract = fmt.Errorf("frame delivered by an earlier read (%d) was altered later: row %d now %s, was %s", i, j, RowKey(now[j]), RowKey(k.rows[j]))
					return
				}
			}
		}
	}()
	for i := 0; ; i++ {
		if i >= maxReads {
			return res, fmt.Errorf("reader did not finish within %d reads (%d rows so far)", maxReads, len(res.Rows))
		}
		d := NewDest(s, sizes[i%len(sizes)])
		n, err := r.Read(ctx, d.View)
		res.Reads++
		if n < 0 || n > d.View.Len() {
			return res, fmt.Errorf("read %d returned n=%d for a destination of %d rows", i, n, d.View.Len())
		}
		if e := d.CheckGuards(); e != nil {
			return res, fmt.Errorf("read %d: %v", i, e)
		}
		if err != nil && err != sliceio.EOF {
			res.Err = err
			return res, nil
		}
		rows := FrameRows(d.View, n)
		res.Rows = append(res.Rows, rows...)
		if n > 0 && len(keep) < 8 {
			keep = append(keep, kept{d.View.Slice(0, n), rows})
		}
		if err == sliceio.EOF {
			return res, nil
		}
	}
}

// BuildAll constructs every node's slice.
func BuildAll(spec *Spec, args []bigslice.Slice) []bigslice.Slice {
	env := EnvOf(spec.RunID)
	slices := make([]bigslice.Slice, len(spec.Nodes))
	for i := range spec.Nodes {
		slices[i] = buildNode(env, spec, i, slices, args)
	}
	return slices
}

var _ = reflect.TypeOf
