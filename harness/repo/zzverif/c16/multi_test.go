//go:build verif
// +build verif

package c16

import (
	"context"
	"encoding/json"
	"fmt"
	"sort"
	"strings"
	"testing"
	"time"

	"github.com/grailbio/base/retry"
	"github.com/grailbio/bigslice"
	"github.com/grailbio/bigslice/exec"
	"github.com/grailbio/bigslice/zzverif/faultsys"
	"github.com/grailbio/bigslice/zzverif/runner"
	"github.com/grailbio/bigslice/zzverif/vt"
	"pgregory.net/rapid"
)

// Funcs over several Result arguments: the invocation graph (which invocation
// must be compiled on a worker before which) is what travels here.

var leafFunc = bigslice.Func(func(tag string, n, nshard int) bigslice.Slice {
	rows := make([]string, n)
	for i := range rows {
		rows[i] = fmt.Sprintf("%s-%d", tag, i)
	}
	return bigslice.Const(nshard, rows)
})

func union2(a, b bigslice.Slice) bigslice.Slice {
	return bigslice.Map(bigslice.Cogroup(a, b), func(k string) string { return k })
}

func union3(a, b, c bigslice.Slice) bigslice.Slice {
	return bigslice.Map(bigslice.Cogroup(a, b, c), func(k string) string { return k })
}

var (
	join2  = bigslice.Func(union2)
	join2X = bigslice.Func(union2).Exclusive()
	join3  = bigslice.Func(union3)
	join3X = bigslice.Func(union3).Exclusive()
	// passes its second argument through unchanged; the first is only a dependency of the invocation
	second = bigslice.Func(func(a, b bigslice.Slice) bigslice.Slice { return b })
)

// MultiStep is one invocation of a multi-result history.
type MultiStep struct {
	K    string `json:"k"`    // leaf | join2 | join3 | second | kill
	Args []int  `json:"args"` // indices of earlier results
	N    int    `json:"n"`    // leaf: rows
	S    int    `json:"s"`    // leaf: shards
	X    bool   `json:"x"`    // exclusive Func
	Twice bool  `json:"twice,omitempty"` // run the Func a second time with the very same argument slice
}

type MultiCase struct {
	Steps []MultiStep `json:"steps"`
}

func runMulti(c MultiCase) (err error, nt bool) {
	defer func() {
		if r := recover(); r != nil {
			_, stack := vt.PanicSig(r)
			err = fmt.Errorf("panic: %v\n%s", r, stack)
		}
	}()
	exec.ProbationTimeout = 300 * time.Millisecond
	exec.VerifSetRetryPolicy(retry.MaxRetries(retry.Backoff(5*time.Millisecond, 50*time.Millisecond, 2), 5))
	sys := faultsys.New(2)
	sys.KeepalivePeriod, sys.KeepaliveTimeout, sys.KeepaliveRpcTimeout = 200*time.Millisecond, 2*time.Second, time.Second
	sys.Relax()
	sess := exec.Start(exec.Bigmachine(sys), exec.Parallelism(4))
	ctx := context.Background()
	var results []*exec.Result
	var sets []map[string]bool
	for i, st := range c.Steps {
		var res *exec.Result
		var runErr error
		want := map[string]bool{}
		var f *bigslice.FuncValue
		var args []interface{}
		switch st.K {
		case "kill":
			sys.Kill(nil)
			time.Sleep(sys.Stretch(2500 * time.Millisecond))
			continue
		case "leaf":
			f = leafFunc
			tag := fmt.Sprintf("r%d", i)
			args = []interface{}{tag, st.N, st.S}
			for k := 0; k < st.N; k++ {
				want[fmt.Sprintf("%s-%d", tag, k)] = true
			}
		default:
			if len(results) == 0 {
				continue
			}
			n := map[string]int{"join2": 2, "join3": 3, "second": 2}[st.K]
			for k := 0; k < n; k++ {
				a := 0
				if k < len(st.Args) {
					a = st.Args[k] % len(results)
				}
				args = append(args, results[a])
				if st.K != "second" || k == 1 {
					for s := range sets[a] {
						want[s] = true
					}
				}
			}
			switch {
			case st.K == "join2" && st.X:
				f = join2X
			case st.K == "join2":
				f = join2
			case st.K == "join3" && st.X:
				f = join3X
			case st.K == "join3":
				f = join3
			default:
				f = second
			}
			nt = true
		}
		attempts := 1
		for _, s := range c.Steps[:i] {
			if s.K == "kill" {
				attempts = 3 // after a loss the same Func may need to be re-run (C02/C12)
			}
		}
		for a := 0; a < attempts; a++ {
			finished := runner.WithTimeout(120*time.Second, func() {
				res, runErr = sess.Run(ctx, f, args...)
			})
			if !finished {
				return fmt.Errorf("step %d (%s): Run did not return within 120s", i, st.K), nt
			}
			if runErr == nil {
				break
			}
		}
		if runErr != nil {
			return fmt.Errorf("step %d (%s over results %v, exclusive=%v): Run failed: %v", i, st.K, st.Args, st.X, runErr), nt
		}
		if st.Twice && st.K != "leaf" {
			// the same Func with the very same argument slice again: Run must not have changed the slice
			for k, a := range args {
				if _, ok := a.(*exec.Result); !ok {
					return fmt.Errorf("step %d (%s): after Run returned, argument %d of the slice the caller passed is a %T, no longer the *exec.Result that was passed", i, st.K, k, a), nt
				}
			}
			var again *exec.Result
			var againErr error
			finished := runner.WithTimeout(120*time.Second, func() {
				defer func() {
					if r := recover(); r != nil {
						againErr = fmt.Errorf("panic: %v", r)
					}
				}()
				again, againErr = sess.Run(ctx, f, args...)
			})
			if !finished {
				return fmt.Errorf("step %d (%s): the second Run with the same arguments did not return within 120s", i, st.K), nt
			}
			if againErr != nil && attempts == 1 {
				return fmt.Errorf("step %d (%s): the second Run with the same argument slice failed: %v", i, st.K, againErr), nt
			}
			_ = again
		}
		var got []string
		var scanErr error
		for a := 0; a < attempts; a++ {
			if got, scanErr = scanStrings(ctx, res); scanErr == nil {
				break
			}
		}
		if scanErr != nil {
			return fmt.Errorf("step %d (%s): scan failed: %v", i, st.K, scanErr), nt
		}
		var w []string
		for s := range want {
			w = append(w, s)
		}
		sort.Strings(w)
		sort.Strings(got)
		if strings.Join(got, ",") != strings.Join(w, ",") {
			return fmt.Errorf("step %d (%s over results %v, exclusive=%v): the slice built on the workers has rows %v, the arguments describe %v", i, st.K, st.Args, st.X, got, w), nt
		}
		results = append(results, res)
		sets = append(sets, want)
	}
	return nil, nt
}

const tMulti = "TestVerifC16MultiResult"

func TestVerifC16MultiResult(t *testing.T) {
	rec := vt.New("C16", "multi-result-invocations",
		"rapid: histories of 2..8 invocations in a fresh session on the bigmachine test system (2 machines): leaf Funcs (1..3 shards) and Funcs over 2 or 3 earlier Results (any earlier results, repeats allowed, results of multi-result Funcs included; a Func that returns one argument unchanged and only depends on the other), plain or Exclusive (an Exclusive Func gets machines of its own, which have compiled none of the argument invocations), optionally a machine kill in between (the replacement machine is equally fresh); a third of the multi-result invocations are run a second time with the very same argument slice; oracle: every run succeeds (3 attempts after a kill), its rows are the union its arguments describe, and Run leaves the caller's argument slice as it was; non-trivial = an invocation over >= 2 Results ran; distinct by case hash")
	docs, only := vt.Replays(tMulti)
	for _, d := range docs {
		var c MultiCase
		if err := json.Unmarshal(d.Case, &c); err != nil {
			t.Fatal(err)
		}
		rec.Case(true, vt.Hash(string(d.Case)), "replay")
		if err, _ := runMulti(c); err != nil {
			rec.Violation(tMulti, "multi-result", err.Error(), c)
			t.Errorf("replay: %v", err)
		}
	}
	if only || t.Failed() {
		return
	}
	defer rec.Commit(tMulti)
	rapid.Check(t, func(rt *rapid.T) {
		var c MultiCase
		n := rapid.IntRange(2, 8).Draw(rt, "steps")
		nres := 0
		classes := map[string]bool{}
		for i := 0; i < n; i++ {
			k := "leaf"
			if nres >= 1 {
				k = rapid.SampledFrom([]string{"leaf", "join2", "join2", "join3", "second", "kill"}).Draw(rt, "kind")
			}
			st := MultiStep{K: k}
			switch k {
			case "leaf":
				st.N = rapid.IntRange(0, 5).Draw(rt, "rows")
				st.S = rapid.IntRange(1, 3).Draw(rt, "shards")
				nres++
			case "kill":
			default:
				st.Args = rapid.SliceOfN(rapid.IntRange(0, 7), 3, 3).Draw(rt, "args")
				st.X = rapid.Bool().Draw(rt, "exclusive")
				st.Twice = rapid.IntRange(0, 2).Draw(rt, "twice") == 0
				nres++
				if st.X {
					classes["exclusive"] = true
				}
			}
			classes["step:"+k] = true
			c.Steps = append(c.Steps, st)
		}
		b, _ := json.Marshal(c)
		err, nt := runMulti(c)
		var cl []string
		for k := range classes {
			cl = append(cl, k)
		}
		sort.Strings(cl)
		rec.Case(nt, vt.Hash(string(b)), cl...)
		if nt && rec.WantSample("history") {
			rec.Sample("history", c)
		}
		if err != nil {
			rec.Pending("multi-result", err.Error(), c)
			rt.Fatalf("%v", err)
		}
	})
}
