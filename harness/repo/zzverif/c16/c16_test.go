//go:build verif
// +build verif

// Package c16 checks property C16 end to end: arguments of an invocation reach
// workers intact, un-encodable arguments fail fast, and FuncLocationsDiff is a
// valid edit script that is empty exactly for equal registries.
package c16

import (
	"context"
	"encoding/gob"
	"encoding/json"
	"fmt"
	"os"
	"strings"
	"testing"
	"time"

	"github.com/grailbio/base/retry"
	"github.com/grailbio/bigslice"
	"github.com/grailbio/bigslice/exec"
	"github.com/grailbio/bigslice/zzverif/faultsys"
	"github.com/grailbio/bigslice/zzverif/runner"
	"github.com/grailbio/bigslice/zzverif/vt"
	"pgregory.net/rapid"
)

func TestMain(m *testing.M) {
	runner.Quiet()
	code := m.Run()
	vt.Flush()
	os.Exit(code)
}

type ArgStruct struct {
	A int
	B string
	C []int
	M map[string]int
}

type unregistered struct{ X int }

// PtrOnly is registered with gob in its pointer form.
type PtrOnly struct{ A int }

func init() {
	gob.Register(ArgStruct{})
	gob.Register(&PtrOnly{})
	gob.Register([]int{})
	gob.Register(map[string]int{})
}

func render(i int, s string, f float64, b []byte, is []int, m map[string]int, st ArgStruct, p *ArgStruct, any interface{}) string {
	ps := "nil"
	if p != nil {
		ps = fmt.Sprintf("&%+v", *p)
	}
	as := fmt.Sprintf("%T:%+v", any, any)
	if q, ok := any.(*PtrOnly); ok && q != nil {
		as = fmt.Sprintf("*PtrOnly:&%+v", *q)
	}
	return fmt.Sprintf("%d|%q|%v|%q|%v|%v|%+v|%s|%s", i, s, f, b, is, m, st, ps, as)
}

var baseFunc = bigslice.Func(func(n int) bigslice.Slice {
	rows := make([]string, n)
	for i := range rows {
		rows[i] = fmt.Sprintf("base-%d", i)
	}
	return bigslice.Const(2, rows)
})

var argFunc = bigslice.Func(func(i int, s string, f float64, b []byte, is []int, m map[string]int, st ArgStruct, p *ArgStruct, any interface{}, sl bigslice.Slice) bigslice.Slice {
	text := render(i, s, f, b, is, m, st, p, any)
	if sl == nil {
		return bigslice.Const(1, []string{text})
	}
	return bigslice.Map(sl, func(x string) string { return text + "<-" + x })
})

// Args is a generated argument list (JSON-friendly).
type Args struct {
	I   int            `json:"i"`
	S   string         `json:"s"`
	F   float64        `json:"f"`
	B   []byte         `json:"b"`
	Is  []int          `json:"is"`
	M   map[string]int `json:"m"`
	St  int            `json:"st"`
	P   int            `json:"p"`   // 0: nil pointer
	Any int            `json:"any"` // selector; see anyOf
	Sl  int            `json:"sl"`  // 0: nil slice, 1: a base result, 2: a nested result
	Cfg runner.Config  `json:"cfg"`
}

func structOf(k int) ArgStruct {
	st := ArgStruct{A: k, B: fmt.Sprint("b", k)}
	if k%2 == 1 {
		st.C = []int{k, k + 1}
	}
	if k%3 == 1 {
		st.M = map[string]int{"k": k}
	}
	return st
}

// anyOf returns the interface{} argument and whether it can be encoded.
func anyOf(k int) (v interface{}, encodable bool) {
	switch k % 12 {
	case 0:
		return 17, true
	case 1:
		return "str", true
	case 2:
		return []int{1, 2, 3}, true
	case 3:
		return structOf(k), true
	case 4:
		return map[string]int{"a": 1}, true
	case 5:
		return 2.5, true
	case 6:
		return true, true
	case 7:
		return &PtrOnly{A: 7}, true
	case 8:
		return nil, true // a nil interface{} travels as a nil interface value ("nil values" are part of the statement)
	case 9:
		return func() {}, false
	case 10:
		return make(chan int), false
	}
	return unregistered{X: k}, false
}

type sessionState struct {
	sess   *runner.Session
	sys    *faultsys.System
	bsess  *exec.Session
	base   *exec.Result
	nested *exec.Result
}

var sessions = map[string]*sessionState{}

func sessionFor(cfg runner.Config, fresh bool) (*sessionState, error) {
	k := cfg.String()
	if s := sessions[k]; s != nil && !fresh {
		return s, nil
	}
	st := &sessionState{}
	ctx := context.Background()
	if cfg.Exec == "local" {
		st.sess = runner.Start(cfg)
		st.bsess = st.sess.Sess
	} else {
		exec.ProbationTimeout = 300 * time.Millisecond
		exec.VerifSetRetryPolicy(retry.MaxRetries(retry.Backoff(5*time.Millisecond, 50*time.Millisecond, 2), 5))
		st.sys = faultsys.New(2)
		st.sys.KeepalivePeriod, st.sys.KeepaliveTimeout, st.sys.KeepaliveRpcTimeout = time.Second, 20*time.Second, 10*time.Second // no machine is ever killed here
		st.bsess = exec.Start(exec.Bigmachine(st.sys), exec.Parallelism(4))
	}
	var err error
	if st.base, err = st.bsess.Run(ctx, baseFunc, 3); err != nil {
		return nil, fmt.Errorf("base run: %v", err)
	}
	if st.nested, err = st.bsess.Run(ctx, argFunc, 1, "n", 0.5, []byte("x"), []int{1}, map[string]int{"n": 1}, structOf(1), &ArgStruct{A: 1}, 1, st.base); err != nil {
		return nil, fmt.Errorf("nested run: %v", err)
	}
	if !fresh {
		sessions[k] = st
	}
	return st, nil
}

func scanStrings(ctx context.Context, res *exec.Result) ([]string, error) {
	sc := res.Scanner()
	defer sc.Close()
	var out []string
	var s string
	for sc.Scan(ctx, &s) {
		out = append(out, s)
	}
	return out, sc.Err()
}

func runArgs(a Args) (err error, encodable bool) {
	defer func() {
		if r := recover(); r != nil {
			_, stack := vt.PanicSig(r)
			err = fmt.Errorf("panic: %v\n%s", r, stack)
		}
	}()
	ctx := context.Background()
	var p *ArgStruct
	if a.P != 0 {
		q := structOf(a.P)
		p = &q
	}
	any, anyOK := anyOf(a.Any)
	encodable = anyOK && p != nil
	// RPC counts are only meaningful in a session without in-flight work of earlier (failed) runs:
	// cases that may fail use a session of their own, whose earlier runs all succeeded.
	mayFail := a.Cfg.Exec != "local" && (!encodable || a.Sl == 0)
	st, e := sessionFor(a.Cfg, mayFail)
	if e != nil {
		return fmt.Errorf("harness: %v", e), true
	}
	var sl bigslice.Slice
	var slRows []string
	text := render(a.I, a.S, a.F, a.B, a.Is, a.M, structOf(a.St), p, any)
	switch a.Sl {
	case 1:
		sl = st.base
		slRows, _ = scanStrings(ctx, st.base)
	case 2:
		sl = st.nested
		slRows, _ = scanStrings(ctx, st.nested)
	}
	var want []string
	if sl == nil {
		want = []string{text}
	} else {
		for _, x := range slRows {
			want = append(want, text+"<-"+x)
		}
	}
	args := []interface{}{a.I, a.S, a.F, a.B, a.Is, a.M, structOf(a.St), p, any}
	if sl == nil {
		args = append(args, nil) // a nil bigslice.Slice travels like any nil interface value
	} else {
		args = append(args, sl)
	}
	if st.sys != nil {
		st.sys.ResetCounts()
	}
	var res *exec.Result
	var runErr error
	start := time.Now()
	finished := runner.WithTimeout(60*time.Second, func() {
		res, runErr = st.bsess.Run(ctx, argFunc, args...)
	})
	took := time.Since(start)
	if !finished {
		delete(sessions, a.Cfg.String())
		return fmt.Errorf("Run did not return within 60s on %s (arguments encodable: %v)", a.Cfg.Exec, encodable), encodable
	}
	if runErr != nil {
		if a.Cfg.Exec == "local" {
			return fmt.Errorf("the local executor failed a run whose arguments need no transport: %v", runErr), encodable
		}
		if encodable {
			return fmt.Errorf("run failed although every argument is gob-encodable: %v", runErr), encodable
		}
		// un-encodable argument: must fail fast, without compiling or running anything on a worker and without retries
		counts := st.sys.Counts()
		// (Worker.Compile calls are not counted: while the first task of the invocation discovers that
		// the invocation cannot be serialised, a sibling task may already be compiling the invocations
		// of the Result arguments on its machine.)
		if counts["Worker.Run"] != 0 {
			return fmt.Errorf("an argument cannot be encoded, yet %d Worker.Run calls were made before the error: %v", counts["Worker.Run"], runErr), encodable
		}
		if took > 20*time.Second {
			return fmt.Errorf("an argument cannot be encoded; the error took %v to surface", took), encodable
		}
		if strings.Contains(runErr.Error(), "consecutive attempts") || strings.Contains(runErr.Error(), "too many tries") {
			return fmt.Errorf("an argument cannot be encoded; the run was retried instead of failing fatally: %v", runErr), encodable
		}
		return nil, encodable
	}
	got, e := scanStrings(ctx, res)
	if e != nil {
		return fmt.Errorf("scan failed: %v", e), encodable
	}
	if strings.Join(got, "\n") != strings.Join(want, "\n") {
		return fmt.Errorf("on %s the slice built from the invocation differs from the one its arguments describe:\n got %q\nwant %q", a.Cfg.Exec, got, want), encodable
	}
	return nil, encodable
}

const tArgs = "TestVerifC16Arguments"

func TestVerifC16Arguments(t *testing.T) {
	rec := vt.New("C16", "arguments-end-to-end",
		"rapid: argument lists (int, string, float64, []byte, []int, map, struct, pointer incl. nil, interface{} holding 8 registered types or nil / func / chan / an unregistered struct, bigslice.Slice holding nil, a Result or a Result of a Func that itself took a Result) for a registered Func whose slice renders its arguments; run on the local executor and on the bigmachine test system behind an RPC-counting interposer; oracle: rows equal the rendering computed on the driver; if an argument cannot be gob-encoded, Run must either succeed with the right rows or fail fast (no task is run on a worker, no retries, < 20 s); never a hang (60 s); non-trivial = bigmachine run; distinct by case hash")
	docs, only := vt.Replays(tArgs)
	for _, d := range docs {
		var a Args
		if err := json.Unmarshal(d.Case, &a); err != nil {
			t.Fatal(err)
		}
		rec.Case(true, vt.Hash(string(d.Case)), "replay")
		if err, _ := runArgs(a); err != nil {
			rec.Violation(tArgs, sigOf(err), err.Error(), a)
			t.Errorf("replay: %v", err)
		}
	}
	if only || t.Failed() {
		return
	}
	defer rec.Commit(tArgs)
	cfgs := []runner.Config{{Exec: "local", Parallelism: 2}, {Exec: "bigmachine"}, {Exec: "bigmachine"}}
	rapid.Check(t, func(rt *rapid.T) {
		var a Args
		a.I = rapid.Int().Draw(rt, "i")
		a.S = rapid.String().Draw(rt, "s")
		a.F = rapid.Float64Range(-1e300, 1e300).Draw(rt, "f")
		a.B = rapid.SliceOfN(rapid.Byte(), 0, 16).Draw(rt, "b")
		a.Is = rapid.SliceOfN(rapid.Int(), 0, 6).Draw(rt, "is")
		if rapid.Bool().Draw(rt, "hasmap") {
			a.M = rapid.MapOfN(rapid.StringN(0, 3, -1), rapid.IntRange(-5, 5), 0, 3).Draw(rt, "m")
		}
		a.St = rapid.IntRange(0, 11).Draw(rt, "st")
		a.P = rapid.SampledFrom([]int{0, 1, 2, 3, 4, 5}).Draw(rt, "p")
		a.Any = rapid.SampledFrom([]int{0, 1, 2, 3, 4, 5, 6, 7, 0, 1, 2, 3, 4, 5, 6, 7, 8, 9, 10, 11}).Draw(rt, "any")
		a.Sl = rapid.SampledFrom([]int{0, 1, 1, 2, 2}).Draw(rt, "sl")
		a.Cfg = rapid.SampledFrom(cfgs).Draw(rt, "cfg")
		b, _ := json.Marshal(a)
		err, encodable := runArgs(a)
		classes := []string{"exec:" + a.Cfg.Exec}
		if !encodable {
			classes = append(classes, "unencodable-argument")
		}
		if a.Sl == 2 {
			classes = append(classes, "nested-result")
		}
		nt := a.Cfg.Exec == "bigmachine"
		rec.Case(nt, vt.Hash(string(b)), classes...)
		if nt && rec.WantSample(fmt.Sprint("enc=", encodable)) {
			rec.Sample(fmt.Sprint("enc=", encodable), a)
		}
		if err != nil {
			rec.Pending(sigOf(err), err.Error(), a)
			rt.Fatalf("%v", err)
		}
	})
}

func sigOf(err error) string {
	m := err.Error()
	switch {
	case strings.Contains(m, "did not return"):
		return "arguments:hang"
	case strings.Contains(m, "differs from"):
		return "arguments:altered"
	case strings.Contains(m, "cannot be encoded"):
		return "arguments:not-fail-fast"
	case strings.Contains(m, "although every argument"):
		return "arguments:spurious-failure"
	}
	return "arguments:other"
}

// ---------------------------------------------------------------------------

func checkDiff(lhs, rhs []string) error {
	d := bigslice.FuncLocationsDiff(lhs, rhs)
	equal := len(lhs) == len(rhs)
	if equal {
		for i := range lhs {
			if lhs[i] != rhs[i] {
				equal = false
			}
		}
	}
	if equal {
		if d != nil {
			return fmt.Errorf("diff of equal lists %q is %q, want nil", lhs, d)
		}
		return nil
	}
	if d == nil {
		return fmt.Errorf("diff of different lists %q and %q is nil", lhs, rhs)
	}
	var l, r []string
	for _, line := range d {
		switch {
		case strings.HasPrefix(line, "- "):
			l = append(l, line[2:])
		case strings.HasPrefix(line, "+ "):
			r = append(r, line[2:])
		default:
			l = append(l, line)
			r = append(r, line)
		}
	}
	if strings.Join(l, "\x00") != strings.Join(lhs, "\x00") || len(l) != len(lhs) {
		return fmt.Errorf("diff %q of %q -> %q: kept and deleted lines give %q, not the left list", d, lhs, rhs, l)
	}
	if strings.Join(r, "\x00") != strings.Join(rhs, "\x00") || len(r) != len(rhs) {
		return fmt.Errorf("diff %q of %q -> %q: kept and added lines give %q, not the right list", d, lhs, rhs, r)
	}
	return nil
}

const tDiff = "TestVerifC16LocationsDiff"

func TestVerifC16LocationsDiff(t *testing.T) {
	maxLen := vt.Pick(4, 5)
	rec := vt.New("C16", "locations-diff",
		fmt.Sprintf("the process's own Func registry (locations pairwise distinct and naming the call sites of bigslice.Func; a registry with two entries exchanged must not compare equal); complete enumeration of all pairs of lists of length <= %d over a 3-letter alphabet of location strings, plus rapid-generated long lists (up to 40 entries over 6 locations); oracle: nil iff the lists are equal; otherwise the unprefixed and '- ' lines reproduce the left list and the unprefixed and '+ ' lines reproduce the right list, in order; non-trivial = lists differ; distinct by pair", maxLen))
	docs, only := vt.Replays(tDiff)
	for _, d := range docs {
		var c struct{ Lhs, Rhs []string }
		if err := json.Unmarshal(d.Case, &c); err != nil {
			t.Fatal(err)
		}
		rec.Case(true, vt.Hash(string(d.Case)), "replay")
		if err := checkDiff(c.Lhs, c.Rhs); err != nil {
			rec.Violation(tDiff, "locations-diff", err.Error(), c)
			t.Errorf("replay: %v", err)
		}
	}
	if only || t.Failed() {
		return
	}
	// the registry of this very process: every Func registered by this test binary was created on a line
	// of its own, so the recorded locations must name those lines (pairwise distinct, in the files that
	// call bigslice.Func) - otherwise no comparison of location lists can tell two registries apart
	if vt.Shard() == 0 {
		regs := bigslice.FuncLocations()
		rec.Case(true, vt.Hash("registry", len(regs)), "own-registry")
		seenLoc := map[string]bool{}
		var regErr error
		for i, l := range regs {
			switch {
			case seenLoc[l]:
				regErr = fmt.Errorf("the registry of this process records location %q for more than one Func (entry %d): Funcs created at different call sites are indistinguishable to the registry comparison", l, i)
			case !strings.Contains(l, "_test.go:") && !strings.Contains(l, "zzverif/"):
				regErr = fmt.Errorf("registry entry %d records location %q, which is not a call site of bigslice.Func in this test binary", i, l)
			}
			seenLoc[l] = true
		}
		if len(regs) < 8 {
			regErr = fmt.Errorf("the registry holds %d Funcs, this test binary registers at least 8", len(regs))
		}
		if regErr == nil {
			for i := 0; i+1 < len(regs) && i < 6; i++ {
				swapped := append([]string{}, regs...)
				swapped[i], swapped[i+1] = swapped[i+1], swapped[i]
				if d := bigslice.FuncLocationsDiff(regs, swapped); len(d) == 0 {
					regErr = fmt.Errorf("the registry with entries %d and %d exchanged compares equal to the registry", i, i+1)
				}
			}
		}
		if regErr != nil {
			rec.Violation(tDiff, "locations-registry", regErr.Error(), map[string]interface{}{"registry": regs})
			t.Errorf("%v", regErr)
			return
		}
	}
	alpha := []string{"a.go:1", "b.go:22", "c.go:333"}
	var lists [][]string
	var gen func(prefix []string)
	gen = func(prefix []string) {
		lists = append(lists, append([]string{}, prefix...))
		if len(prefix) == maxLen {
			return
		}
		for _, a := range alpha {
			gen(append(prefix, a))
		}
	}
	gen(nil)
	reported := false
	idx := 0
	for i, l := range lists {
		for j, r := range lists {
			idx++
			if !vt.Mine(idx) {
				continue
			}
			rec.Case(i != j, vt.Hash(i, j), "enumerated")
			if err := checkDiff(l, r); err != nil && !reported {
				reported = true
				rec.Violation(tDiff, "locations-diff", err.Error(), map[string]interface{}{"lhs": l, "rhs": r})
				t.Errorf("%v", err)
			}
		}
	}
	rec.Sample("enumerated", map[string]interface{}{"lhs": lists[len(lists)/2], "rhs": lists[len(lists)/3]})
	rec.Exhaustive = true
	rec2 := vt.New("C16", "locations-diff-random", "rapid: pairs of lists of up to 40 entries over 6 location strings (second list derived from the first by random edits half of the time); same oracle; non-trivial = lists differ; distinct by pair")
	defer rec2.Commit(tDiff)
	locs := []string{"a.go:1", "b.go:22", "c.go:333", "a.go:2", "d/e.go:5", "f.go:6"}
	rapid.Check(t, func(rt *rapid.T) {
		l := rapid.SliceOfN(rapid.SampledFrom(locs), 0, 40).Draw(rt, "lhs")
		var r []string
		if rapid.Bool().Draw(rt, "derived") {
			r = append(r, l...)
			for k := rapid.IntRange(0, 5).Draw(rt, "edits"); k > 0 && len(r) > 0; k-- {
				p := rapid.IntRange(0, len(r)-1).Draw(rt, "pos")
				switch rapid.IntRange(0, 2).Draw(rt, "edit") {
				case 0:
					r = append(r[:p], r[p+1:]...)
				case 1:
					r = append(r[:p], append([]string{rapid.SampledFrom(locs).Draw(rt, "ins")}, r[p:]...)...)
				default:
					r[p] = rapid.SampledFrom(locs).Draw(rt, "repl")
				}
			}
		} else {
			r = rapid.SliceOfN(rapid.SampledFrom(locs), 0, 40).Draw(rt, "rhs")
		}
		diff := strings.Join(l, "\x00") != strings.Join(r, "\x00")
		rec2.Case(diff, vt.Hash(l, r), "random")
		if diff && rec2.WantSample("random") {
			rec2.Sample("random", map[string]interface{}{"lhs": l, "rhs": r})
		}
		if err := checkDiff(l, r); err != nil {
			rec2.Pending("locations-diff", err.Error(), map[string]interface{}{"lhs": l, "rhs": r})
			rt.Fatalf("%v", err)
		}
	})
}
