//go:build verif
// +build verif

// Package c01 checks property C01: running a slice program yields exactly the
// rows its operators prescribe.
package c01

import (
	"context"
	"encoding/json"
	"fmt"
	"os"
	"runtime"
	"strings"
	"testing"
	"time"

	"github.com/grailbio/bigslice/zzverif/progen"
	"github.com/grailbio/bigslice/zzverif/runner"
	"github.com/grailbio/bigslice/zzverif/vt"
	"pgregory.net/rapid"
)

func TestMain(m *testing.M) {
	code := m.Run()
	vt.Flush()
	os.Exit(code)
}

type harness struct {
	sess  *runner.Session
	cases int
}

func (h *harness) session() *runner.Session {
	if h.sess == nil || h.cases >= 400 {
		if h.sess != nil {
			h.sess.Close()
		}
		h.sess = runner.Start(runner.Default)
		h.cases = 0
	}
	h.cases++
	return h.sess
}

const hangTimeout = 90 * time.Second

// runProgram runs a program in the harness session and applies the oracle.
func (h *harness) runProgram(spec *progen.Spec) (err error, sig string) {
	spec.RunID = runner.NewRunID()
	defer progen.DropEnv(spec.RunID)
	ref, rerr := progen.Eval(spec, nil)
	if rerr != nil {
		return fmt.Errorf("harness: reference evaluation failed: %v", rerr), "harness"
	}
	sess := h.session()
	ctx := context.Background()
	var rows []progen.Row
	var runErr, scanErr error
	var panicked interface{}
	finished := runner.WithTimeout(hangTimeout, func() {
		defer func() {
			if r := recover(); r != nil {
				panicked = r
			}
		}()
		res, e := sess.Run(ctx, spec)
		if e != nil {
			runErr = e
			return
		}
		rows, scanErr = runner.Scan(ctx, res, spec.Nodes[spec.Root()].Schema)
		res.Discard(ctx)
	})
	if !finished {
		buf := make([]byte, 1<<20)
		buf = buf[:runtime.Stack(buf, true)]
		h.sess = nil // abandon the wedged session
		return fmt.Errorf("program did not terminate within %v\n%s", hangTimeout, buf), "hang"
	}
	if panicked != nil {
		s, stack := vt.PanicSig(panicked)
		return fmt.Errorf("panic in the driver: %v\n%s", panicked, stack), s
	}
	if runErr != nil {
		return fmt.Errorf("Run failed for a well-typed, failure-free program: %v", runErr), "run-error:" + firstLine(runErr.Error())
	}
	if scanErr != nil {
		return fmt.Errorf("scanning the result failed: %v", scanErr), "scan-error"
	}
	root := ref.Stages[spec.Root()]
	if e := progen.CheckRows(root, rows); e != nil {
		return fmt.Errorf("result rows differ from the reference evaluation: %v", e), "rows:" + classify(e)
	}
	if e := progen.CheckObservers(spec, ref, progen.EnvOf(spec.RunID), rows); e != nil {
		return e, "observer:" + classify(e)
	}
	return nil, ""
}

func firstLine(s string) string {
	if i := strings.IndexByte(s, '\n'); i >= 0 {
		s = s[:i]
	}
	if len(s) > 60 {
		s = s[:60]
	}
	return s
}

func classify(e error) string {
	m := e.Error()
	for _, k := range []string{"invented", "duplicated", "lost", "order fixed", "bounds", "equal key", "never observed", "end-of-stream", "reader instances", "concatenation", "even split", "cogroup"} {
		if strings.Contains(m, k) {
			return k
		}
	}
	return "other"
}

const tRandom = "TestVerifC01Random"
const tEnum = "TestVerifC01Enum"

func TestVerifC01Random(t *testing.T) {
	rec := vt.New("C01", "random-programs",
		"rapid-generated operator DAGs (1 source + 0..8 operators from the full public operator set, shared sub-slices, multi-input cogroup, nested shuffles, prefixes 1..3, 17 column types, row counts 0..300 biased to 0/1/127..129/255..257, key cardinalities 1..1000, 1..7 shards per operator, flatmap fan-out up to 300) run on the local executor; oracle: reference evaluator with determinacy levels for the scanned rows and for every WriterFunc/Scan observer; non-trivial = >= 2 operators and >= 1 source row; distinct by program hash")
	h := &harness{}
	defer func() {
		if h.sess != nil {
			h.sess.Close()
		}
	}()
	docs, only := vt.Replays(tRandom)
	for _, d := range docs {
		var spec progen.Spec
		if err := json.Unmarshal(d.Case, &spec); err != nil {
			t.Fatal(err)
		}
		if err := progen.Annotate(&spec); err != nil {
			t.Fatalf("bad replay: %v", err)
		}
		rec.Case(true, vt.Hash(string(d.Case)), "replay")
		if err, sig := h.runProgram(&spec); err != nil {
			rec.Violation(tRandom, sig, err.Error(), spec)
			t.Errorf("replay: %v", err)
		}
	}
	if only || t.Failed() {
		return
	}
	defer rec.Commit(tRandom)
	rapid.Check(t, func(rt *rapid.T) {
		spec := progen.Gen(rt, progen.Opts{})
		b, _ := json.Marshal(spec)
		classes, nops := progen.Classes(spec)
		sum := progen.Summary(spec)
		nt := nops >= 2 && sum["source_rows"].(int) >= 1
		rec.Case(nt, vt.Hash(string(b)), classes...)
		if nt && rec.WantSample("program") {
			rec.Sample("program", sum)
		}
		if err, sig := h.runProgram(spec); err != nil {
			rec.Pending(sig, err.Error(), spec)
			rt.Fatalf("%v", err)
		}
	})
}

type enumCase struct {
	Source int   `json:"source"`
	NShard int   `json:"nshard"`
	NRows  int   `json:"nrows"`
	Ops    []int `json:"ops"`
}

func TestVerifC01Enum(t *testing.T) {
	depth := vt.Pick(3, 4)
	rec := vt.New("C01", "enumerated-programs",
		fmt.Sprintf("complete enumeration of all operator sequences of length <= %d over the alphabet %v applied to a 2-column source (Const or ReaderFunc) x shard counts {1,2,3} x row counts {0,1,2,129} (quick tier: every sequence up to length 2 and every 5th of length 3); sequences that apply Head where the per-shard order is not fixed are left to the random generator; same oracle as random-programs; non-trivial = >= 2 operators and >= 1 row; distinct by (source, shards, rows, sequence)", depth, progen.EnumOps))
	h := &harness{}
	defer func() {
		if h.sess != nil {
			h.sess.Close()
		}
	}()
	docs, only := vt.Replays(tEnum)
	for _, d := range docs {
		var c enumCase
		if err := json.Unmarshal(d.Case, &c); err != nil {
			t.Fatal(err)
		}
		spec := progen.EnumProgram(c.Source, c.NShard, c.NRows, c.Ops)
		rec.Case(true, vt.Hash(string(d.Case)), "replay")
		if spec == nil {
			continue
		}
		if err, sig := h.runProgram(spec); err != nil {
			rec.Violation(tEnum, sig, err.Error(), c)
			t.Errorf("replay: %v", err)
		}
	}
	if only || t.Failed() {
		return
	}
	idx := 0
	skipped := 0
	failed := map[string]bool{}
	progen.EnumSeqs(depth, func(ops []int) {
		for source := 0; source < 2; source++ {
			for _, nshard := range []int{1, 2, 3} {
				for _, nrows := range []int{0, 1, 2, 129} {
					idx++
					if !vt.Mine(idx) {
						continue
					}
					if !vt.Thorough() && len(ops) == 3 && idx%5 != 0 {
						continue
					}
					spec := progen.EnumProgram(source, nshard, nrows, ops)
					if spec == nil {
						skipped++
						continue
					}
					c := enumCase{source, nshard, nrows, ops}
					nt := len(ops) >= 2 && nrows >= 1
					classes, _ := progen.Classes(spec)
					rec.Case(nt, vt.Hash(source, nshard, nrows, fmt.Sprint(ops)), classes...)
					if nt && rec.WantSample("enumerated") {
						rec.Sample("enumerated", map[string]interface{}{"case": c, "program": progen.Summary(spec)})
					}
					if err, sig := h.runProgram(spec); err != nil {
						if !failed[sig] {
							failed[sig] = true
							rec.Violation(tEnum, sig, err.Error(), c)
							t.Errorf("%+v: %v", c, err)
						}
					}
				}
			}
		}
	})
	rec.Count("skipped-head-on-unordered", skipped)
	rec.Exhaustive = vt.Thorough()
}

type sharedCase struct {
	NShard      int  `json:"nshard"`
	NRows       int  `json:"nrows"`
	Materialize bool `json:"materialize"`
	A           int  `json:"a"`
	B           int  `json:"b"`
}

const tShared = "TestVerifC01Shared"

// TestVerifC01Shared enumerates the programs Cogroup(A(s), B(s)) over one
// shared sub-slice for every ordered pair of consumer kinds.
func TestVerifC01Shared(t *testing.T) {
	rec := vt.New("C01", "shared-subslice-pairs",
		fmt.Sprintf("complete enumeration of Cogroup(A(s), B(s)) over one shared sub-slice s = Map(ReaderFunc) for every ordered pair (A, B) of consumer kinds %v x shard counts {1,2,3} x {plain, Materialize pragma on s} x row counts {3, 40}; same oracle as random-programs; non-trivial = A != B; distinct by case", progen.SharedKinds))
	h := &harness{}
	defer func() {
		if h.sess != nil {
			h.sess.Close()
		}
	}()
	docs, only := vt.Replays(tShared)
	for _, d := range docs {
		var c sharedCase
		if err := json.Unmarshal(d.Case, &c); err != nil {
			t.Fatal(err)
		}
		rec.Case(true, vt.Hash(string(d.Case)), "replay")
		if err, sig := h.runProgram(progen.EnumShared(c.NShard, c.NRows, c.Materialize, c.A, c.B)); err != nil {
			rec.Violation(tShared, sig, err.Error(), c)
			t.Errorf("replay: %v", err)
		}
	}
	if only || t.Failed() {
		return
	}
	idx := 0
	failed := map[string]bool{}
	for a := range progen.SharedKinds {
		for b := range progen.SharedKinds {
			for _, nshard := range []int{1, 2, 3} {
				for _, mat := range []bool{false, true} {
					for _, nrows := range []int{3, 40} {
						idx++
						if !vt.Mine(idx) {
							continue
						}
						c := sharedCase{nshard, nrows, mat, a, b}
						rec.Case(a != b, vt.Hash("shared", nshard, nrows, mat, a, b), "pair:"+progen.SharedKinds[a]+"+"+progen.SharedKinds[b])
						if a != b && rec.WantSample("shared") {
							rec.Sample("shared", map[string]interface{}{"case": c, "a": progen.SharedKinds[a], "b": progen.SharedKinds[b]})
						}
						if err, sig := h.runProgram(progen.EnumShared(nshard, nrows, mat, a, b)); err != nil {
							if !failed[sig] {
								failed[sig] = true
								rec.Violation(tShared, sig, err.Error(), c)
								t.Errorf("%+v (%s, %s): %v", c, progen.SharedKinds[a], progen.SharedKinds[b], err)
							}
						}
					}
				}
			}
		}
	}
	rec.Exhaustive = true
}

type gapsCase struct {
	NKeys    int `json:"nkeys"`
	NShard   int `json:"nshard"`
	Pattern  int `json:"pattern"`
	Consumer int `json:"consumer"`
}

const tGaps = "TestVerifC01CogroupGaps"

// TestVerifC01CogroupGaps enumerates cogroups of many distinct keys in which one input lacks groups.
func TestVerifC01CogroupGaps(t *testing.T) {
	rec := vt.New("C01", "cogroup-gaps",
		"complete enumeration of Cogroup(A, B) with A holding {1, 127, 128, 129, 257, 400} distinct keys and B lacking some of them (every third key / the lower half / the upper half / all but the last) x shard counts {1,2,3} x consumer {none, Map, Filter pipelined with the Cogroup}; same oracle as random-programs; non-trivial = more than 128 keys in a shard (a second output batch); distinct by case")
	h := &harness{}
	defer func() {
		if h.sess != nil {
			h.sess.Close()
		}
	}()
	docs, only := vt.Replays(tGaps)
	for _, d := range docs {
		var c gapsCase
		if err := json.Unmarshal(d.Case, &c); err != nil {
			t.Fatal(err)
		}
		rec.Case(true, vt.Hash(string(d.Case)), "replay")
		if err, sig := h.runProgram(progen.EnumCogroupGaps(c.NKeys, c.NShard, c.Pattern, c.Consumer)); err != nil {
			rec.Violation(tGaps, sig, err.Error(), c)
			t.Errorf("replay: %v", err)
		}
	}
	if only || t.Failed() {
		return
	}
	idx := 0
	failed := map[string]bool{}
	for _, nkeys := range []int{1, 127, 128, 129, 257, 400} {
		for _, nshard := range []int{1, 2, 3} {
			for pattern := 0; pattern < 4; pattern++ {
				for consumer := 0; consumer < 3; consumer++ {
					idx++
					if !vt.Mine(idx) {
						continue
					}
					c := gapsCase{nkeys, nshard, pattern, consumer}
					nt := nkeys/nshard > 128
					rec.Case(nt, vt.Hash("gaps", nkeys, nshard, pattern, consumer), fmt.Sprintf("keys:%d", nkeys))
					if nt && rec.WantSample("gaps") {
						rec.Sample("gaps", c)
					}
					if err, sig := h.runProgram(progen.EnumCogroupGaps(nkeys, nshard, pattern, consumer)); err != nil {
						if !failed[sig] {
							failed[sig] = true
							rec.Violation(tGaps, sig, err.Error(), c)
							t.Errorf("%+v: %v", c, err)
						}
					}
				}
			}
		}
	}
	rec.Exhaustive = true
}
