//go:build verif
// +build verif

package c12

import (
	"context"
	"encoding/json"
	"fmt"
	"testing"
	"time"

	"github.com/grailbio/bigslice/exec"
	"github.com/grailbio/bigslice/zzverif/progen"
	"github.com/grailbio/bigslice/zzverif/runner"
	"github.com/grailbio/bigslice/zzverif/vgen"
	"github.com/grailbio/bigslice/zzverif/vt"
)

const tShapes = "TestVerifC12ReuseShapes"

// shapeCase: a Func applies a chain of operators to its Result argument.
type shapeCase struct {
	Exec   string   `json:"exec"`
	NShard int      `json:"nshard"`
	Chain  []string `json:"chain"`
}

// operators that may stand between the Result and its first real consumer, and the consumers
var shapeWrappers = [][]string{{}, {"prefixed1"}, {"prefixed2"}, {"prefixed2", "prefixed1"}}
var shapeConsumers = [][]string{{"map"}, {"filter"}, {"flatmap"}, {"map", "reshuffle"}, {"reduce"}, {"reshuffle"}, {"fold"}, {"cogroup"}, {"reshard"}, {"head"}, {"writerfunc"}}

func shapeNode(op string, in int) progen.Node {
	switch op {
	case "prefixed1":
		return progen.Node{Op: "prefixed", In: []int{in}, N: 1}
	case "prefixed2":
		return progen.Node{Op: "prefixed", In: []int{in}, N: 2}
	case "map":
		return progen.Node{Op: "map", In: []int{in}, Fn: &progen.Fn{Exprs: []progen.Expr{{K: "col", I: 0}, {K: "hash", T: progen.TInt, M: 29}}}}
	case "filter":
		return progen.Node{Op: "filter", In: []int{in}, Fn: &progen.Fn{M: 10, T: 7}}
	case "flatmap":
		return progen.Node{Op: "flatmap", In: []int{in}, Fn: &progen.Fn{M: 3, Exprs: []progen.Expr{{K: "col", I: 0}, {K: "hash", T: progen.TInt, M: 100}}}}
	case "reduce":
		return progen.Node{Op: "reduce", In: []int{in}, Fn: &progen.Fn{}}
	case "fold":
		return progen.Node{Op: "fold", In: []int{in}, Fn: &progen.Fn{Kind: "sumhash"}}
	case "reshard":
		return progen.Node{Op: "reshard", In: []int{in}, N: 2}
	case "head":
		return progen.Node{Op: "head", In: []int{in}, N: 5}
	}
	return progen.Node{Op: op, In: []int{in}}
}

// shapeRun computes a Result whose root is observed (one stream per evaluation of a shard), applies the
// chain to it in a second Func and checks the rows; on the local executor, where no task is ever lost, the
// Result's shards must not be evaluated again: the Func has to use the rows of the first evaluation.
func shapeRun(sess *runner.Session, c shapeCase) (err error) {
	defer func() {
		if r := recover(); r != nil {
			_, stack := vt.PanicSig(r)
			err = fmt.Errorf("panic: %v\n%s", r, stack)
		}
	}()
	src := progen.Node{Op: "readerfunc", Cols: []progen.Col{progen.TInt, progen.TInt}, NShard: c.NShard, ShardRows: make([][][]int, c.NShard), Script: []vgen.Chunk{{N: 64}}}
	for i := 0; i < 200; i++ {
		src.ShardRows[i%c.NShard] = append(src.ShardRows[i%c.NShard], []int{i % 11, i % 23})
	}
	base := &progen.Spec{Nodes: []progen.Node{src, {Op: "map", In: []int{0}, Fn: &progen.Fn{Exprs: []progen.Expr{{K: "col", I: 0}, {K: "hash", T: progen.TInt, M: 17}}}}, {Op: "writerfunc", In: []int{1}}}}
	if e := progen.Annotate(base); e != nil {
		return fmt.Errorf("harness: %v", e)
	}
	base.RunID = runner.NewRunID()
	defer progen.DropEnv(base.RunID)
	bref, e := progen.Eval(base, nil)
	if e != nil {
		return fmt.Errorf("harness: %v", e)
	}
	broot := base.Nodes[base.Root()]
	main := &progen.Spec{Args: []progen.ArgInfo{{Schema: broot.Schema, Shards: broot.Shards}}}
	main.Nodes = append(main.Nodes, progen.Node{Op: "arg", Arg: 0})
	for _, op := range c.Chain {
		main.Nodes = append(main.Nodes, shapeNode(op, len(main.Nodes)-1))
	}
	if e := progen.Annotate(main); e != nil {
		return fmt.Errorf("harness: %v", e)
	}
	main.RunID = runner.NewRunID()
	defer progen.DropEnv(main.RunID)
	ref, e := progen.Eval(main, []*progen.Stage{bref.Stages[base.Root()]})
	if e != nil {
		return fmt.Errorf("harness: %v", e)
	}
	ctx := context.Background()
	var runErr error
	var rows []progen.Row
	var before, after int
	ok := runner.WithTimeout(180*time.Second, func() {
		var bres, res *exec.Result
		bres, runErr = sess.Run(ctx, base)
		if runErr != nil {
			return
		}
		before = len(progen.EnvOf(base.RunID).StreamsOf(base.Root()))
		res, runErr = sess.Run(ctx, main, bres)
		if runErr != nil {
			return
		}
		if len(main.Nodes[main.Root()].Schema.Cols) > 0 {
			rows, runErr = runner.Scan(ctx, res, main.Nodes[main.Root()].Schema)
		}
		after = len(progen.EnvOf(base.RunID).StreamsOf(base.Root()))
		res.Discard(ctx)
		bres.Discard(ctx)
	})
	if !ok {
		return fmt.Errorf("did not finish within 180s")
	}
	if runErr != nil {
		return fmt.Errorf("failed: %v", runErr)
	}
	if len(main.Nodes[main.Root()].Schema.Cols) > 0 {
		if e := progen.CheckRows(ref.Stages[main.Root()], rows); e != nil {
			return fmt.Errorf("rows differ from the reference: %v", e)
		}
	}
	if before != c.NShard {
		return fmt.Errorf("harness: the Result's %d shards were observed %d times by its own evaluation", c.NShard, before)
	}
	if c.Exec == "local" && after != before {
		return fmt.Errorf("the Func did not use the rows of the Result's evaluation: %d of the Result's shards were evaluated again although nothing was discarded or lost", after-before)
	}
	return nil
}

// TestVerifC12ReuseShapes enumerates the operator chains through which a Func can reach its Result
// argument: views (Prefixed, also stacked) followed by every kind of consumer.
func TestVerifC12ReuseShapes(t *testing.T) {
	rec := vt.New("C12", "reuse-shapes",
		fmt.Sprintf("complete enumeration: a Result whose root shards are observed (WriterFunc) is passed to a Func that applies wrappers %v followed by consumers %v x shard counts {1,3} x {local executor, bigmachine test system}; oracle: rows equal the reference computed from the rows of the first evaluation, and on the local executor (where nothing is ever lost) no shard of the Result is evaluated again; non-trivial = the chain starts with a view; distinct by case", shapeWrappers, shapeConsumers))
	sessions := map[string]*runner.Session{}
	defer func() {
		for _, s := range sessions {
			s.Close()
		}
	}()
	run := func(c shapeCase) error {
		s := sessions[c.Exec]
		if s == nil {
			s = runner.Start(runner.Config{Exec: c.Exec, Parallelism: 4, Machineprocs: 2})
			sessions[c.Exec] = s
		}
		if err := shapeRun(s, c); err != nil {
			return fmt.Errorf("%s, %d shards, Func applies %v to its Result argument: %v", c.Exec, c.NShard, c.Chain, err)
		}
		return nil
	}
	docs, only := vt.Replays(tShapes)
	for _, d := range docs {
		var c shapeCase
		if err := json.Unmarshal(d.Case, &c); err != nil {
			t.Fatal(err)
		}
		rec.Case(true, vt.Hash(string(d.Case)), "replay")
		if err := run(c); err != nil {
			rec.Violation(tShapes, "reuse:shape", err.Error(), c)
			t.Errorf("replay: %v", err)
		}
	}
	if only || t.Failed() {
		return
	}
	idx := 0
	reported := map[string]bool{}
	for _, ex := range []string{"local", "bigmachine"} {
		for _, nshard := range []int{1, 3} {
			for _, w := range shapeWrappers {
				for _, cons := range shapeConsumers {
					if len(w) > 0 && w[len(w)-1] == "prefixed2" && (cons[0] == "fold" || cons[0] == "reduce") {
						continue // Fold over a key prefix > 1 is a documented BUG of Fold (DESIGN.md section 9); Reduce needs a value column
					}
					idx++
					if !vt.Mine(idx) {
						continue
					}
					c := shapeCase{ex, nshard, append(append([]string{}, w...), cons...)}
					rec.Case(len(w) > 0, vt.Hash("shape", ex, nshard, fmt.Sprint(c.Chain)), "exec:"+ex, "first:"+c.Chain[0])
					if len(w) > 0 && rec.WantSample(ex) {
						rec.Sample(ex, c)
					}
					if err := run(c); err != nil && !reported[ex] {
						reported[ex] = true
						rec.Violation(tShapes, "reuse:shape", err.Error(), c)
						t.Errorf("%v", err)
					}
				}
			}
		}
	}
	rec.Exhaustive = true
}
