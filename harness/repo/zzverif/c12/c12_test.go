//go:build verif
// +build verif

// Package c12 checks property C12: results can be reused, rescanned and
// discarded without changing their rows.
package c12

import (
	"context"
	"encoding/json"
	"fmt"
	"os"
	"runtime"
	"strings"
	"sync"
	"testing"
	"time"

	"github.com/grailbio/base/retry"
	"github.com/grailbio/bigslice/exec"
	"github.com/grailbio/bigslice/zzverif/faultsys"
	"github.com/grailbio/bigslice/zzverif/progen"
	"github.com/grailbio/bigslice/zzverif/runner"
	"github.com/grailbio/bigslice/zzverif/vt"
	"pgregory.net/rapid"
)

func TestMain(m *testing.M) {
	runner.Quiet()
	code := m.Run()
	vt.Flush()
	os.Exit(code)
}

// Op is one step of a history.
type Op struct {
	K    string       `json:"k"` // run scan discard kill par
	Spec *progen.Spec `json:"spec,omitempty"`
	Args []int        `json:"args,omitempty"` // run: indices of earlier results passed as arguments
	R    int          `json:"r"`              // scan/discard: result selector
	N    int          `json:"n"`              // scan: number of concurrent scanners
	Par  []Op         `json:"par,omitempty"`  // par: two operations executed concurrently
}

// Case is a history in one session.
type Case struct {
	Exec string `json:"exec"` // local | bigmachine
	MC   bool   `json:"machine_combiners"`
	// One: a cluster of a single machine (parallelism = one machine's procs), so that whatever is
	// recomputed after a Discard returns to the worker that computed it before.
	One bool `json:"one_machine,omitempty"`
	Ops []Op `json:"ops"`
}

type result struct {
	res   *exec.Result
	spec  *progen.Spec
	stage *progen.Stage
	gone  bool // discarded or possibly lost since its evaluation
}

type session struct {
	c       Case
	sess    *exec.Session
	sys     *faultsys.System
	results []*result
	mu      sync.Mutex
	kills   int
}

const opTimeout = 150 * time.Second

var errHang = fmt.Errorf("hang")

func withTimeout(what string, f func() error) error {
	var err error
	ok := runner.WithTimeout(opTimeout, func() { err = f() })
	if !ok {
		buf := make([]byte, 64<<20)
		buf = buf[:runtime.Stack(buf, true)]
		var keep []string
		seen := map[string]int{}
		for _, g := range strings.Split(string(buf), "\n\n") {
			if !strings.Contains(g, "grailbio/bigslice/exec.") && !strings.Contains(g, "grailbio/bigmachine.") {
				continue
			}
			// idle service loops of this and of earlier (abandoned) sessions are noise
			if strings.Contains(g, "machineManager).Do(") || strings.Contains(g, "sliceMachine).Go(") || strings.Contains(g, "Do.func1") || strings.Contains(g, "monitorTaskStats") || strings.Contains(g, "logInvocation") {
				continue
			}
			lines := strings.Split(g, "\n")
			key := ""
			for i, l := range lines {
				if i > 0 && !strings.HasPrefix(l, "\t") {
					if j := strings.Index(l, "("); j > 0 {
						l = l[:j]
					}
					key += l + ";"
				}
			}
			seen[key]++
			if seen[key] > 2 {
				continue
			}
			if len(g) > 3000 {
				g = g[:3000]
			}
			keep = append(keep, g)
		}
		return fmt.Errorf("%s did not finish within %v (wedged)\n%s", what, opTimeout, strings.Join(keep, "\n\n"))
	}
	return err
}

func (s *session) run(op Op) error {
	spec := *op.Spec
	if err := progen.Annotate(&spec); err != nil {
		return fmt.Errorf("harness: %v", err)
	}
	spec.RunID = runner.NewRunID()
	var args []*exec.Result
	var stages []*progen.Stage
	s.mu.Lock()
	for _, a := range op.Args {
		r := s.results[a%len(s.results)]
		args = append(args, r.res)
		stages = append(stages, r.stage)
	}
	kills := s.kills
	s.mu.Unlock()
	ref, err := progen.Eval(&spec, stages)
	if err != nil {
		return fmt.Errorf("harness: reference: %v", err)
	}
	ctx := context.Background()
	attempts := 1
	if kills > 0 {
		attempts = 3 // losses are noticed with a delay; the property promises success once they stop
	}
	var res *exec.Result
	var rows []progen.Row
	var lastErr error
	for a := 0; a < attempts; a++ {
		lastErr = withTimeout("Run", func() error {
			var e error
			res, e = s.sess.Run(ctx, progen.ProgFunc(len(args)), append([]interface{}{spec}, toIfaces(args)...)...)
			return e
		})
		if lastErr != nil && strings.Contains(lastErr.Error(), "wedged") {
			return lastErr
		}
		if lastErr == nil {
			break
		}
	}
	if lastErr != nil {
		return fmt.Errorf("a Func over %d earlier result(s) (some discarded or lost: it must recompute them) failed after %d attempt(s): %v", len(args), attempts, lastErr)
	}
	unit := len(spec.Nodes[spec.Root()].Schema.Cols) == 0
	if !unit {
		err = withTimeout("scan of a fresh result", func() error {
			var e error
			rows, e = runner.Scan(ctx, res, spec.Nodes[spec.Root()].Schema)
			return e
		})
		if err != nil {
			if kills > 0 && !strings.Contains(err.Error(), "wedged") {
				// the scan of a result whose machine just died may fail; it must not return other rows
				rows = nil
			} else {
				return fmt.Errorf("scanning a freshly computed result failed: %v", err)
			}
		} else if e := progen.CheckRows(ref.Stages[spec.Root()], rows); e != nil {
			// diagnosis: do the arguments themselves still hold the rows of their first evaluation?
			diag := ""
			for i, a := range args {
				sch := s.resultOf(a).spec.Nodes[s.resultOf(a).spec.Root()].Schema
				if len(sch.Cols) == 0 {
					continue
				}
				arows, aerr := runner.Scan(ctx, a, sch)
				if aerr != nil {
					diag += fmt.Sprintf("; direct scan of argument %d fails: %v", i, firstLine(aerr))
				} else if d := progen.CheckRows(s.resultOf(a).stage, arows); d != nil {
					diag += fmt.Sprintf("; argument %d itself now scans to different rows: %v", i, d)
				} else {
					diag += fmt.Sprintf("; argument %d scans correctly", i)
				}
			}
			if os.Getenv("VERIF_DEBUG") != "" {
				env := progen.EnvOf(spec.RunID)
				for id, n := range spec.Nodes {
					if n.Op != "writerfunc" {
						continue
					}
					for _, st := range env.StreamsOf(id) {
						diag += fmt.Sprintf("\nobserver node %d shard %d: %d rows, %d calls, ends=%d (%s) want %d", id, st.Shard, len(st.Rows), st.Calls, st.Ends, st.End, len(ref.Stages[id].Rows()))
					}
				}
			}
			return fmt.Errorf("a Func over earlier results produced rows that differ from the reference (args: %v): %v%s", op.Args, e, diag)
		}
	}
	s.mu.Lock()
	s.results = append(s.results, &result{res: res, spec: &spec, stage: ref.Stages[spec.Root()]})
	s.mu.Unlock()
	return nil
}

func (s *session) resultOf(r *exec.Result) *result {
	s.mu.Lock()
	defer s.mu.Unlock()
	for _, x := range s.results {
		if x.res == r {
			return x
		}
	}
	return nil
}

func toIfaces(rs []*exec.Result) []interface{} {
	out := make([]interface{}, len(rs))
	for i, r := range rs {
		out[i] = r
	}
	return out
}

func (s *session) scan(op Op) error {
	s.mu.Lock()
	if len(s.results) == 0 {
		s.mu.Unlock()
		return nil
	}
	r := s.results[op.R%len(s.results)]
	gone := r.gone || s.kills > 0
	s.mu.Unlock()
	schema := r.spec.Nodes[r.spec.Root()].Schema
	if len(schema.Cols) == 0 {
		return nil
	}
	n := 1 + op.N%4
	errs := make([]error, n)
	var wg sync.WaitGroup
	for i := 0; i < n; i++ {
		wg.Add(1)
		go func(i int) {
			defer wg.Done()
			errs[i] = withTimeout("scan", func() error {
				rows, e := runner.Scan(context.Background(), r.res, schema)
				if e != nil {
					if gone {
						return nil // a direct scan of a result whose outputs are gone may report an error
					}
					return fmt.Errorf("scan %d of %d concurrent scans of an intact result failed: %v", i, n, e)
				}
				if d := progen.CheckRows(r.stage, rows); d != nil {
					return fmt.Errorf("scan %d of %d concurrent scans (result discarded/lost before: %v) returned rows that differ from the first evaluation: %v", i, n, gone, d)
				}
				return nil
			})
		}(i)
	}
	wg.Wait()
	for _, e := range errs {
		if e != nil {
			return e
		}
	}
	return nil
}

func (s *session) discard(op Op) error {
	s.mu.Lock()
	if len(s.results) == 0 {
		s.mu.Unlock()
		return nil
	}
	r := s.results[op.R%len(s.results)]
	// Discard drops every task reachable from the result, i.e. also the outputs of its arguments
	for _, o := range s.results {
		o.gone = true
	}
	s.mu.Unlock()
	return withTimeout("Discard", func() error {
		r.res.Discard(context.Background())
		return nil
	})
}

func (s *session) kill() error {
	if s.sys == nil || s.sys.N() == 0 {
		return nil
	}
	if s.sys.Kill(nil) {
		s.mu.Lock()
		s.kills++
		for _, o := range s.results {
			o.gone = true
		}
		s.mu.Unlock()
		// let the loss be noticed (keepalive timeout 2 s)
		time.Sleep(s.sys.Stretch(2500 * time.Millisecond))
	}
	return nil
}

func (s *session) apply(op Op) error {
	switch op.K {
	case "run":
		return s.run(op)
	case "scan":
		return s.scan(op)
	case "discard":
		return s.discard(op)
	case "kill":
		return s.kill()
	case "par":
		errs := make([]error, len(op.Par))
		var wg sync.WaitGroup
		for i, p := range op.Par {
			wg.Add(1)
			go func(i int, p Op) {
				defer wg.Done()
				errs[i] = s.apply(p)
			}(i, p)
		}
		wg.Wait()
		for _, p := range op.Par {
			if p.K == "discard" {
				// a Result created while the Discard was running may share the discarded tasks
				s.mu.Lock()
				for _, o := range s.results {
					o.gone = true
				}
				s.mu.Unlock()
			}
		}
		for i, e := range errs {
			if e == nil {
				continue
			}
			if op.Par[i].K == "run" && !strings.Contains(e.Error(), "wedged") && !strings.Contains(e.Error(), "differ from") {
				// A run that overlaps a Discard of its argument may fail (the statement only promises that
				// it is not wedged and that LATER Funcs recompute what was discarded): run it again, later.
				s.mu.Lock()
				s.kills++ // grants the retry budget of run()
				s.mu.Unlock()
				e2 := s.run(op.Par[i])
				s.mu.Lock()
				s.kills--
				s.mu.Unlock()
				if e2 != nil {
					return fmt.Errorf("a run overlapping a Discard failed (%v) and the same Func still fails when run again afterwards: %v", firstLine(e), e2)
				}
				continue
			}
			return e
		}
	}
	return nil
}

func firstLine(e error) string {
	s := e.Error()
	if i := strings.IndexByte(s, '\n'); i >= 0 {
		s = s[:i]
	}
	return s
}

func runCase(c Case) (err error) {
	defer func() {
		if r := recover(); r != nil {
			_, stack := vt.PanicSig(r)
			err = fmt.Errorf("panic: %v\n%s", r, stack)
		}
	}()
	s := &session{c: c}
	switch c.Exec {
	case "local":
		rs := runner.Start(runner.Config{Exec: "local", Parallelism: 4})
		s.sess = rs.Sess
		defer rs.Close()
	default:
		exec.ProbationTimeout = 300 * time.Millisecond
		exec.VerifSetRetryPolicy(retry.MaxRetries(retry.Backoff(5*time.Millisecond, 50*time.Millisecond, 2), 5))
		s.sys = faultsys.New(2)
		// kills are noticed within ~2 s; generous enough that a busy host does not fake a machine loss
		s.sys.KeepalivePeriod = 200 * time.Millisecond
		s.sys.KeepaliveTimeout = 2 * time.Second
		s.sys.KeepaliveRpcTimeout = time.Second
		s.sys.Relax()
		par := 4
		if c.One {
			par = 2
		}
		opts := []exec.Option{exec.Bigmachine(s.sys), exec.Parallelism(par)}
		if c.MC {
			opts = append(opts, exec.MachineCombiners)
		}
		s.sess = exec.Start(opts...)
		defer func() {
			if s.kills == 0 && err == nil {
				s.sess.Shutdown()
			}
		}()
	}
	for i, op := range c.Ops {
		if e := s.apply(op); e != nil {
			return fmt.Errorf("step %d (%s) on %s: %v", i, op.K, c.Exec, e)
		}
	}
	for _, r := range s.results {
		progen.DropEnv(r.spec.RunID)
	}
	return nil
}

var reuseOps = []string{"map", "filter", "flatmap", "fold", "reduce", "reduce", "cogroup", "reshuffle", "repartition", "reshard", "prefixed", "source", "arg", "arg"}

type genState struct {
	infos  []progen.ArgInfo
	levels []progen.Level
}

func genRun(t *rapid.T, g *genState) Op {
	op := Op{K: "run"}
	o := progen.Opts{MaxOps: 4, MaxRows: 150, MaxShards: 4, NoScan: true, NoObserver: true, Ops: reuseOps}
	if len(g.infos) > 0 && rapid.IntRange(0, 4).Draw(t, "usearg") != 0 {
		nargs := rapid.IntRange(1, 2).Draw(t, "nargs")
		for i := 0; i < nargs; i++ {
			a := rapid.IntRange(0, len(g.infos)-1).Draw(t, "arg")
			op.Args = append(op.Args, a)
			o.Args = append(o.Args, g.infos[a])
			o.ArgLevels = append(o.ArgLevels, g.levels[a])
			o.ArgSubs = append(o.ArgSubs, false)
		}
	} else {
		o.Ops = []string{"map", "filter", "flatmap", "fold", "reduce", "cogroup", "reshuffle", "repartition", "reshard", "prefixed", "source"}
	}
	op.Spec = progen.Gen(t, o)
	root := op.Spec.Nodes[op.Spec.Root()]
	g.infos = append(g.infos, progen.ArgInfo{Schema: root.Schema, Shards: root.Shards})
	g.levels = append(g.levels, progen.LBag) // only the multiset of a reused result is relied upon
	return op
}

func genCase(t *rapid.T) Case {
	var c Case
	c.Exec = rapid.SampledFrom([]string{"local", "bigmachine", "bigmachine"}).Draw(t, "exec")
	if c.Exec == "bigmachine" {
		c.MC = rapid.IntRange(0, 3).Draw(t, "mc") == 0
		c.One = rapid.IntRange(0, 2).Draw(t, "one") == 0
	}
	g := &genState{}
	c.Ops = append(c.Ops, genRun(t, g))
	n := rapid.IntRange(1, 9).Draw(t, "nops")
	kinds := []string{"run", "run", "run", "scan", "scan", "discard", "par", "par"}
	if c.Exec == "bigmachine" && !c.MC {
		kinds = append(kinds, "kill")
	}
	for i := 0; i < n; i++ {
		k := rapid.SampledFrom(kinds).Draw(t, "k")
		switch k {
		case "run":
			c.Ops = append(c.Ops, genRun(t, g))
		case "scan":
			c.Ops = append(c.Ops, Op{K: "scan", R: rapid.IntRange(0, 20).Draw(t, "r"), N: rapid.IntRange(0, 3).Draw(t, "n")})
		case "discard":
			c.Ops = append(c.Ops, Op{K: "discard", R: rapid.IntRange(0, 20).Draw(t, "r")})
		case "kill":
			c.Ops = append(c.Ops, Op{K: "kill"})
		case "par":
			r := rapid.IntRange(0, 20).Draw(t, "r")
			var a Op
			switch rapid.IntRange(0, 2).Draw(t, "parkind") {
			case 0:
				a = Op{K: "discard", R: r}
			case 1:
				a = Op{K: "scan", R: r, N: rapid.IntRange(0, 3).Draw(t, "n")}
			default:
				a = Op{K: "scan", R: r + 1, N: 1}
			}
			c.Ops = append(c.Ops, Op{K: "par", Par: []Op{a, genRun(t, g)}})
		}
	}
	return c
}

func sigOf(c Case, err error) string {
	m := err.Error()
	switch {
	case strings.Contains(m, "wedged"):
		return "reuse:wedged:" + c.Exec
	case strings.Contains(m, "panic"):
		return "reuse:panic:" + c.Exec
	case strings.Contains(m, "differ from"):
		return "reuse:rows:" + c.Exec
	case strings.Contains(m, "must recompute"):
		return "reuse:run-failed:" + c.Exec
	case strings.Contains(m, "intact result failed"):
		return "reuse:scan-failed:" + c.Exec
	}
	return "reuse:other:" + c.Exec
}

func classes(c Case) (cl []string, nt bool) {
	seen := map[string]bool{"exec:" + c.Exec: true}
	if c.One {
		seen["one-machine"] = true
	}
	discarded, killed := false, false
	var walk func(ops []Op)
	walk = func(ops []Op) {
		for _, op := range ops {
			switch op.K {
			case "discard":
				discarded = true
			case "kill":
				killed = true
			case "par":
				seen["concurrent-ops"] = true
				walk(op.Par)
			case "run":
				if len(op.Args) > 0 {
					seen["run-over-result"] = true
					if discarded || killed {
						seen["reuse-after-discard-or-loss"] = true
						nt = true
					}
					for _, n := range op.Spec.Nodes {
						switch n.Op {
						case "reduce", "fold", "cogroup", "reshuffle", "repartition", "reshard":
							for _, in := range n.In {
								if op.Spec.Nodes[in].Op == "arg" || (op.Spec.Nodes[in].Op == "prefixed" && len(op.Spec.Nodes[in].In) > 0 && op.Spec.Nodes[op.Spec.Nodes[in].In[0]].Op == "arg") {
									seen["result-through-shuffle"] = true
									nt = true
								}
							}
						}
					}
				}
			}
		}
	}
	walk(c.Ops)
	if killed {
		seen["machine-kill"] = true
	}
	for k := range seen {
		cl = append(cl, k)
	}
	return
}

const testName = "TestVerifC12Reuse"

func TestVerifC12Reuse(t *testing.T) {
	rec := vt.New("C12", "reuse-histories",
		"rapid: histories of 2..10 operations in one session (local executor, bigmachine test system with/without machine combiners): run a generated program (over 0..2 earlier Results used through pipelined operators, shuffles and cogroups), scan a Result with 1..4 concurrent scanners, discard a Result, kill a machine (test system), and concurrent pairs (discard || run over it, scan || run); oracle: every successful scan and every run equals the reference rows of the first evaluation, a Func over discarded/lost Results succeeds (within 3 attempts after kills), a direct scan of a Result whose outputs are gone may fail but never returns other rows, nothing wedges (150 s per operation); non-trivial = a Result is reused after a discard/kill or passed directly into a shuffle; distinct by case hash")
	docs, only := vt.Replays(testName)
	for _, d := range docs {
		var c Case
		if err := json.Unmarshal(d.Case, &c); err != nil {
			t.Fatal(err)
		}
		rec.Case(true, vt.Hash(string(d.Case)), "replay")
		if err := runCase(c); err != nil {
			rec.Violation(testName, sigOf(c, err), err.Error(), c)
			t.Errorf("replay: %v", err)
		}
	}
	if only || t.Failed() {
		return
	}
	defer rec.Commit(testName)
	rapid.Check(t, func(rt *rapid.T) {
		c := genCase(rt)
		b, _ := json.Marshal(c)
		cl, nt := classes(c)
		rec.Case(nt, vt.Hash(string(b)), cl...)
		if nt && rec.WantSample(c.Exec) {
			var ops []string
			for _, op := range c.Ops {
				s := op.K
				if op.K == "run" {
					s += fmt.Sprint(op.Args)
				}
				if op.K == "par" {
					s += "(" + op.Par[0].K + "||" + op.Par[1].K + ")"
				}
				ops = append(ops, s)
			}
			rec.Sample(c.Exec, map[string]interface{}{"exec": c.Exec, "machine_combiners": c.MC, "ops": ops})
		}
		if err := runCase(c); err != nil {
			rec.Pending(sigOf(c, err), err.Error(), c)
			rt.Fatalf("%v", err)
		}
	})
}
