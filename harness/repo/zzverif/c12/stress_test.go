//go:build verif
// +build verif

package c12

import (
	"context"
	"fmt"
	"os"
	"strings"
	"testing"
	"time"

	"github.com/grailbio/base/retry"
	"github.com/grailbio/bigslice/exec"
	"github.com/grailbio/bigslice/zzverif/faultsys"
	"github.com/grailbio/bigslice/zzverif/progen"
	"github.com/grailbio/bigslice/zzverif/runner"
)

// TestVerifC12Stress is a development aid (VERIF_STRESS=1): kill machines and
// re-use results in a loop, reporting unexpected errors with the RPC log.
func TestVerifC12Stress(t *testing.T) {
	if os.Getenv("VERIF_STRESS") == "" {
		t.Skip()
	}
	exec.ProbationTimeout = 300 * time.Millisecond
	exec.VerifSetRetryPolicy(retry.MaxRetries(retry.Backoff(5*time.Millisecond, 50*time.Millisecond, 2), 5))
	sys := faultsys.New(2)
	sys.KeepalivePeriod = 200 * time.Millisecond
	sys.KeepaliveTimeout = 2 * time.Second
	sys.KeepaliveRpcTimeout = time.Second
	sess := exec.Start(exec.Bigmachine(sys), exec.Parallelism(4))
	ctx := context.Background()
	mk := func(nodes ...progen.Node) *progen.Spec {
		s := &progen.Spec{Nodes: nodes}
		return s
	}
	base := mk(progen.Node{Op: "const", Cols: []progen.Col{progen.TInt}, NShard: 1, Rows: [][]int{{1}, {2}, {3}}})
	if err := progen.Annotate(base); err != nil {
		t.Fatal(err)
	}
	base.RunID = runner.NewRunID()
	r1, err := sess.Run(ctx, progen.Prog0, *base)
	if err != nil {
		t.Fatal(err)
	}
	root := base.Nodes[0]
	for i := 0; i < 200; i++ {
		sys.Kill(nil)
		time.Sleep(2300 * time.Millisecond)
		over := mk(progen.Node{Op: "arg", Arg: 0}, progen.Node{Op: "map", In: []int{0}, Fn: &progen.Fn{Exprs: []progen.Expr{{K: "col", I: 0}}}},
			progen.Node{Op: "readerfunc", Cols: []progen.Col{progen.TInt, progen.TInt}, NShard: 3, ShardRows: [][][]int{{{1, 1}}, {{2, 2}}, {{3, 3}}}},
			progen.Node{Op: "fold", In: []int{2}, Fn: &progen.Fn{Kind: "count"}},
			progen.Node{Op: "map", In: []int{0}, Fn: &progen.Fn{Exprs: []progen.Expr{{K: "col", I: 0}}}})
		over.Args = []progen.ArgInfo{{Schema: root.Schema, Shards: 1}}
		if err := progen.Annotate(over); err != nil {
			t.Fatal(err)
		}
		var last error
		for a := 0; a < 3; a++ {
			over.RunID = runner.NewRunID()
			sys.ResetCounts()
			_, last = sess.Run(ctx, progen.Prog1, *over, r1)
			if last == nil {
				break
			}
			if strings.Contains(last.Error(), "invalid invocation reference") {
				fmt.Printf("ITER %d attempt %d: %v\nRPC LOG: %+v\n", i, a, last, sys.Log)
			}
		}
		if last != nil {
			fmt.Printf("ITER %d FAILED: %v\n", i, last)
		}
	}
}
