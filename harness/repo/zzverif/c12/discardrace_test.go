//go:build verif
// +build verif

package c12

import (
	"context"
	"fmt"
	"runtime"
	"strings"
	"testing"
	"time"

	"github.com/grailbio/bigslice/exec"
	"github.com/grailbio/bigslice/zzverif/progen"
	"github.com/grailbio/bigslice/zzverif/runner"
	"github.com/grailbio/bigslice/zzverif/vt"
)

const tDiscardRace = "TestVerifC12DiscardRightAfterRun"

// TestVerifC12DiscardRightAfterRun repeats the shortest history in which a Discard meets a task at
// the moment of its completion: Run returns as soon as the evaluator sees the root tasks complete,
// which can be before the executor goroutine has finished its own bookkeeping for them; the Result is
// discarded at once and then used again. The later use must not wedge and must see the same rows.
func TestVerifC12DiscardRightAfterRun(t *testing.T) {
	rec := vt.New("C12", "discard-right-after-run",
		"repetition (quick 150, thorough 3000 per shard; GOMAXPROCS 2..16 by shard, bigmachine test system and local executor alternating) of the history Run(program of 1..4 one-task shards); Discard immediately; Run(a Func over the Result) and scan: the later run and the scan must finish (60 s) with the reference rows; non-trivial = every repetition; distinct by (executor, shards, repetition)")
	if _, only := vt.Replays(tDiscardRace); only {
		return
	}
	runtime.GOMAXPROCS([]int{2, 4, 8, 16}[vt.Shard()%4])
	n := vt.Pick(150, 3000)
	ctx := context.Background()
	sessions := map[string]*runner.Session{}
	defer func() {
		for _, s := range sessions {
			s.Close()
		}
	}()
	for i := 0; i < n; i++ {
		ex := []string{"bigmachine", "bigmachine", "local"}[i%3]
		nshard := 1 + (i/3)%4
		sess := sessions[ex]
		if sess == nil {
			cfg := runner.Config{Exec: ex, Parallelism: 4}
			if ex == "bigmachine" {
				cfg.Machineprocs = 2
			}
			sess = runner.Start(cfg)
			sessions[ex] = sess
		}
		src := progen.Node{Op: "readerfunc", Cols: []progen.Col{progen.TInt, progen.TInt}, NShard: nshard, ShardRows: make([][][]int, nshard)}
		for s := 0; s < nshard; s++ {
			src.ShardRows[s] = [][]int{{s, i % 7}, {s + 1, 3}}
		}
		base := &progen.Spec{Nodes: []progen.Node{src}}
		over := &progen.Spec{Nodes: []progen.Node{{Op: "arg", Arg: 0}, {Op: "map", In: []int{0}, Fn: &progen.Fn{Exprs: []progen.Expr{{K: "col", I: 0}, {K: "col", I: 1}}}}}}
		if err := progen.Annotate(base); err != nil {
			t.Fatal(err)
		}
		over.Args = []progen.ArgInfo{{Schema: base.Nodes[0].Schema, Shards: nshard}}
		if err := progen.Annotate(over); err != nil {
			t.Fatal(err)
		}
		base.RunID, over.RunID = runner.NewRunID(), runner.NewRunID()
		bref, _ := progen.Eval(base, nil)
		oref, _ := progen.Eval(over, []*progen.Stage{bref.Stages[0]})
		var failure string
		ok := runner.WithTimeout(60*time.Second, func() {
			res, err := sess.Run(ctx, base)
			if err != nil {
				failure = "base run failed: " + err.Error()
				return
			}
			res.Discard(ctx)
			var r2 *exec.Result
			for a := 0; a < 2; a++ {
				if r2, err = sess.Run(ctx, over, res); err == nil {
					break
				}
			}
			if err != nil {
				failure = "a Func over the discarded Result failed twice: " + err.Error()
				return
			}
			rows, err := runner.Scan(ctx, r2, over.Nodes[1].Schema)
			if err != nil {
				failure = "scan failed: " + err.Error()
				return
			}
			if d := progen.CheckRows(oref.Stages[1], rows); d != nil {
				failure = "rows differ: " + d.Error()
			}
		})
		progen.DropEnv(base.RunID)
		progen.DropEnv(over.RunID)
		rec.Case(true, vt.Hash("discardrace", ex, nshard, i, vt.Shard()), "exec:"+ex)
		if !ok {
			buf := make([]byte, 8<<20)
			buf = buf[:runtime.Stack(buf, true)]
			var keep []string
			for _, g := range strings.Split(string(buf), "\n\n") {
				if strings.Contains(g, "bigslice/exec.") && !strings.Contains(g, "sliceMachine).Go") && !strings.Contains(g, "machineManager).Do") && len(keep) < 12 {
					if len(g) > 1500 {
						g = g[:1500]
					}
					keep = append(keep, g)
				}
			}
			failure = fmt.Sprintf("wedged: run / discard / run over the result did not finish within 60s\n%s", strings.Join(keep, "\n\n"))
			delete(sessions, ex) // leave the wedged session alone
		}
		if failure != "" {
			rec.Violation(tDiscardRace, "reuse:discard-at-completion:"+ex, fmt.Sprintf("repetition %d on %s (%d shards): %s", i, ex, nshard, failure), map[string]interface{}{"exec": ex, "nshard": nshard, "repetition": i})
			t.Errorf("repetition %d on %s: %s", i, ex, failure)
			return
		}
	}
}
