//go:build verif
// +build verif

// Package c02 checks property C02: machine loss yields the correct rows or an
// error, never wrong rows or a hang; once losses stop, the run completes.
package c02

import (
	"bufio"
	"context"
	"encoding/json"
	"fmt"
	"io/ioutil"
	"os"
	osexec "os/exec"
	"path/filepath"
	"runtime"
	"sort"
	"strings"
	"syscall"
	"testing"
	"time"

	"github.com/grailbio/base/retry"
	"github.com/grailbio/bigslice/exec"
	"github.com/grailbio/bigslice/zzverif/faultsys"
	"github.com/grailbio/bigslice/zzverif/progen"
	"github.com/grailbio/bigslice/zzverif/runner"
	"github.com/grailbio/bigslice/zzverif/vgen"
	"github.com/grailbio/bigslice/zzverif/vt"
	"pgregory.net/rapid"
)

func TestMain(m *testing.M) {
	runner.Quiet()
	code := m.Run()
	vt.Flush()
	os.Exit(code)
}

// Scenario is one fault scenario.
type Scenario struct {
	Program string             `json:"program"`
	Plan    []faultsys.Trigger `json:"plan"`
	Trace   bool               `json:"trace,omitempty"` // fault-free run that reports the RPC counts
	Par     int                `json:"par,omitempty"`   // session parallelism (default 4; 1 = a cluster of a single machine)
	// Second: "scan" = a second scanner reads the first run's Result to its end between the moment the
	// serving machine of the first scan dies and the first scan's reader reopens its stream (the retry
	// back-off of the readers is 6 s or more in these scenarios): the shard is recomputed by somebody else
	Second string `json:"second,omitempty"`
	Rep    int    `json:"rep,omitempty"` // ordinal among identical scenarios
	Repeat  int                `json:"repeat,omitempty"` // replays only: run the scenario this many times (outcomes that depend on the order in which a recomputed shuffle delivers its rows)
}

func (s Scenario) String() string {
	var p []string
	for _, t := range s.Plan {
		d := ""
		if t.Drop {
			d = "+drop"
		}
		if t.HoldMs > 0 {
			d += fmt.Sprintf("+hold%dms", t.HoldMs)
		}
		if t.Phase == "mid" {
			d += fmt.Sprintf("@%dB", t.CutAfter)
		}
		p = append(p, fmt.Sprintf("%s#%d/%s%s/%s", t.Method, t.N, t.Phase, d, t.Victim))
	}
	name := s.Program
	if s.Par != 0 {
		name += fmt.Sprintf("@par%d", s.Par)
	}
	if s.Second != "" {
		name += fmt.Sprintf("+second-%s.%d", s.Second, s.Rep)
	}
	return name + "[" + strings.Join(p, ",") + "]"
}

// Outcome is what the child observed.
type Outcome struct {
	Counts     map[string]int `json:"counts,omitempty"`
	Fired      int            `json:"fired"`
	RunErr     string         `json:"run_err"`
	ScanErr    string         `json:"scan_err"`
	RowsDiff   string         `json:"rows_diff"`
	Hang       string         `json:"hang"`
	Recovered  bool           `json:"recovered"`
	RecoverErr string         `json:"recover_err"`
	Attempts   int            `json:"attempts"`
	RescanErr    string       `json:"rescan_err,omitempty"`
	RescanFailed bool         `json:"rescan_failed,omitempty"`
	Millis     int64          `json:"millis"`
	Log        []faultsys.Event `json:"log,omitempty"`
}

func source(nshard, rows, keyMod int) progen.Node {
	n := progen.Node{Op: "readerfunc", Cols: []progen.Col{progen.TInt, progen.TInt}, NShard: nshard, ShardRows: make([][][]int, nshard), Script: []vgen.Chunk{{N: 50}}}
	for s := 0; s < nshard; s++ {
		for i := 0; i < rows; i++ {
			n.ShardRows[s] = append(n.ShardRows[s], []int{(i*3 + s) % keyMod, (s*7 + i) % 23})
		}
	}
	return n
}

var identity = &progen.Fn{Exprs: []progen.Expr{{K: "col", I: 0}, {K: "col", I: 1}}}

// programs of the fault suite; "base" (if non-nil) is run first, fault-free, and passed as the Result argument.
func programOf(name string) (base, main *progen.Spec) {
	mk := func(nodes ...progen.Node) *progen.Spec {
		s := &progen.Spec{Nodes: nodes}
		return s
	}
	chain := func(src progen.Node, ops ...progen.Node) *progen.Spec {
		s := &progen.Spec{Nodes: []progen.Node{src}}
		for _, o := range ops {
			o.In = []int{len(s.Nodes) - 1}
			s.Nodes = append(s.Nodes, o)
		}
		return s
	}
	switch name {
	case "map-only":
		main = chain(source(3, 60, 7), progen.Node{Op: "map", Fn: identity})
	case "reduce":
		main = chain(source(3, 60, 7), progen.Node{Op: "reduce", Fn: &progen.Fn{}})
	case "fold":
		main = chain(source(3, 60, 11), progen.Node{Op: "fold", Fn: &progen.Fn{Kind: "sumhash"}})
	case "cogroup":
		main = mk(source(3, 40, 9), source(2, 30, 13), progen.Node{Op: "cogroup", In: []int{0, 1}})
	case "two-stage":
		main = chain(source(4, 60, 13), progen.Node{Op: "reduce", Fn: &progen.Fn{}}, progen.Node{Op: "map", Fn: &progen.Fn{Exprs: []progen.Expr{{K: "hash", T: progen.TInt, M: 5}, {K: "col", I: 1}}}}, progen.Node{Op: "fold", Fn: &progen.Fn{Kind: "count"}})
	case "reshuffle-root":
		main = chain(source(3, 200, 50), progen.Node{Op: "reshuffle"})
	case "repartition-flatmap":
		main = chain(source(3, 40, 7), progen.Node{Op: "repartition", Fn: &progen.Fn{Kind: "hash"}}, progen.Node{Op: "flatmap", Fn: &progen.Fn{M: 3, Exprs: []progen.Expr{{K: "col", I: 0}, {K: "hash", T: progen.TInt, M: 100}}}})
	case "reshard":
		main = chain(source(4, 50, 9), progen.Node{Op: "reshard", N: 2})
	case "big-map":
		main = chain(source(2, 400, 50), progen.Node{Op: "map", Fn: identity})
	case "big-reduce":
		// every key once per shard: the shuffle carries thousands of rows per partition (several reads of a
		// merge buffer, tens of kilobytes per stream)
		// the producers hold disjoint key ranges, so that for the second half of every merge one stream is
		// the only one left
		src := source(2, 3000, 100000)
		for sh := range src.ShardRows {
			for i := range src.ShardRows[sh] {
				src.ShardRows[sh][i][0] = sh*1000000 + i
			}
		}
		main = chain(src, progen.Node{Op: "reduce", Fn: &progen.Fn{}})
	case "big-reshuffle":
		// a root whose shards are tens of kilobytes (many batches) and hold their rows in the order in
		// which the shuffle happened to deliver them: the reads of the final scan are cut after 100, 3000
		// and 20000 bytes
		main = chain(source(2, 6000, 100000), progen.Node{Op: "reshuffle"})
	case "reused-result":
		base = chain(source(3, 60, 7), progen.Node{Op: "reduce", Fn: &progen.Fn{}})
		main = mk(progen.Node{Op: "arg", Arg: 0}, progen.Node{Op: "map", In: []int{0}, Fn: &progen.Fn{Exprs: []progen.Expr{{K: "hash", T: progen.TInt, M: 3}, {K: "col", I: 1}}}}, progen.Node{Op: "reduce", In: []int{1}, Fn: &progen.Fn{}})
	case "reused-through-shuffle":
		base = chain(source(3, 60, 7), progen.Node{Op: "map", Fn: identity})
		main = mk(progen.Node{Op: "arg", Arg: 0}, progen.Node{Op: "reduce", In: []int{0}, Fn: &progen.Fn{}})
	default:
		panic("unknown program " + name)
	}
	if base != nil {
		if err := progen.Annotate(base); err != nil {
			panic(err)
		}
		r := base.Nodes[base.Root()]
		main.Args = []progen.ArgInfo{{Schema: r.Schema, Shards: r.Shards}}
	}
	if err := progen.Annotate(main); err != nil {
		panic(err)
	}
	return
}

var suite = []string{"map-only", "reduce", "fold", "cogroup", "two-stage", "reshuffle-root", "repartition-flatmap", "reshard", "big-map", "big-reduce", "big-reshuffle", "reused-result", "reused-through-shuffle"}

const runTimeout = 150 * time.Second

func stacks() string {
	buf := make([]byte, 32<<20)
	buf = buf[:runtime.Stack(buf, true)]
	var keep []string
	seen := map[string]int{}
	for _, g := range strings.Split(string(buf), "\n\n") {
		if !strings.Contains(g, "grailbio/bigslice/exec.") {
			continue
		}
		if strings.Contains(g, "machineManager).Do(") || strings.Contains(g, "sliceMachine).Go(") || strings.Contains(g, "Do.func1") || strings.Contains(g, "logInvocation") {
			continue
		}
		key := ""
		for i, l := range strings.Split(g, "\n") {
			if i > 0 && !strings.HasPrefix(l, "\t") {
				if j := strings.Index(l, "("); j > 0 {
					l = l[:j]
				}
				key += l + ";"
			}
		}
		seen[key]++
		if seen[key] > 2 {
			continue
		}
		if len(g) > 2500 {
			g = g[:2500]
		}
		keep = append(keep, g)
	}
	if len(keep) > 60 {
		keep = keep[:60]
	}
	return strings.Join(keep, "\n\n")
}

// runScenario executes a scenario in this (child) process.
func runScenario(sc Scenario) (out Outcome) {
	start := time.Now()
	defer func() { out.Millis = time.Since(start).Milliseconds() }()
	exec.ProbationTimeout = 300 * time.Millisecond
	fastRetry := retry.MaxRetries(retry.Backoff(5*time.Millisecond, 50*time.Millisecond, 2), 5)
	exec.VerifSetRetryPolicy(fastRetry)
	lf := runner.LoadFactor()
	if sc.Second != "" {
		// the first scan's reader reopens its stream only after the second scanner is through, also on a busy host
		back := 3*time.Second + time.Duration(3*lf*float64(time.Second))
		exec.VerifSetRetryPolicy(retry.MaxRetries(retry.Backoff(back, back, 1), 2))
	}
	sys := faultsys.New(2)
	sys.KeepalivePeriod = 100 * time.Millisecond
	sys.KeepaliveTimeout = time.Second
	sys.KeepaliveRpcTimeout = 500 * time.Millisecond
	sys.Relax()
	par := sc.Par
	if par == 0 {
		par = 4
	}
	sess := exec.Start(exec.Bigmachine(sys), exec.Parallelism(par))
	ctx := context.Background()
	base, main := programOf(sc.Program)
	var args []interface{}
	var stages []*progen.Stage
	if base != nil {
		base.RunID = runner.NewRunID()
		bref, err := progen.Eval(base, nil)
		if err != nil {
			out.RunErr = "harness: " + err.Error()
			return
		}
		res, err := sess.Run(ctx, progen.ProgFunc(0), *base)
		if err != nil {
			out.RunErr = "harness: base run failed: " + err.Error()
			return
		}
		args = append(args, res)
		stages = append(stages, bref.Stages[base.Root()])
	}
	ref, err := progen.Eval(main, stages)
	if err != nil {
		out.RunErr = "harness: " + err.Error()
		return
	}
	want := ref.Stages[main.Root()]
	schema := main.Nodes[main.Root()].Schema
	var firstRes *exec.Result
	stopSecond := make(chan struct{})
	attempt := func() (runErr, scanErr, diff string, hang bool) {
		spec := *main
		spec.RunID = runner.NewRunID()
		defer progen.DropEnv(spec.RunID)
		ok := runner.WithTimeout(runTimeout, func() {
			res, e := sess.Run(ctx, progen.ProgFunc(len(args)), append([]interface{}{spec}, args...)...)
			if e != nil {
				runErr = e.Error()
				return
			}
			var second chan string
			if firstRes == nil {
				firstRes = res
				if sc.Second == "scan" {
					second = make(chan string, 1)
					go func() {
						// wait for the kill, then until the driver has noticed the loss (keepalive timeout 1 s)
						for sys.Fired() == 0 {
							select {
							case <-stopSecond:
								second <- ""
								return
							case <-time.After(20 * time.Millisecond):
							}
						}
						time.Sleep(time.Second + time.Duration(1.2*lf*float64(time.Second)))
						rows2, e2 := runner.Scan(ctx, res, schema)
						if e2 != nil {
							second <- ""
							return
						}
						if d := progen.CheckRows(want, rows2); d != nil {
							second <- "second scanner: " + d.Error()
							return
						}
						second <- ""
					}()
				}
			}
			rows, e := runner.Scan(ctx, res, schema)
			if second != nil {
				close(stopSecond)
				d2 := <-second
				exec.VerifSetRetryPolicy(fastRetry)
				if d2 != "" {
					diff = d2
					return
				}
			}
			if e != nil {
				scanErr = e.Error()
				return
			}
			if d := progen.CheckRows(want, rows); d != nil {
				diff = d.Error()
			}
		})
		return runErr, scanErr, diff, !ok
	}
	sys.ResetCounts()
	sys.SetPlan(sc.Plan)
	var hang bool
	out.RunErr, out.ScanErr, out.RowsDiff, hang = attempt()
	out.Fired = sys.Fired()
	if sc.Trace {
		out.Counts = sys.Counts()
	}
	if hang {
		out.Hang = stacks()
		return
	}
	sys.Disable()
	if ev := sys.Events(); len(ev) < 400 {
		out.Log = ev
	}
	if out.RowsDiff != "" || sc.Trace {
		return
	}
	// recovery of the scan: losses have stopped; scanning the Result that the (successful) first run
	// returned must deliver the reference rows within three attempts (lost task outputs are recomputed)
	if firstRes != nil {
		rescanned := false
		for a := 1; a <= 3 && !rescanned; a++ {
			var rows []progen.Row
			var e error
			ok := runner.WithTimeout(runTimeout, func() { rows, e = runner.Scan(ctx, firstRes, schema) })
			if !ok {
				out.Hang = "during a re-scan of the first run's result\n" + stacks()
				return
			}
			if e != nil {
				out.RescanErr = e.Error()
				time.Sleep(300 * time.Millisecond)
				continue
			}
			if d := progen.CheckRows(want, rows); d != nil {
				out.RowsDiff = "re-scan of the first run's result: " + d.Error()
				return
			}
			rescanned = true
		}
		if !rescanned {
			out.RescanFailed = true
			return
		}
	}
	// recovery: losses have stopped; the same Func must complete within three attempts
	for a := 1; a <= 3; a++ {
		out.Attempts = a
		re, se, diff, hang := attempt()
		if hang {
			out.Hang = "during recovery attempt\n" + stacks()
			return
		}
		if diff != "" {
			out.RowsDiff = "recovery run: " + diff
			return
		}
		if re == "" && se == "" {
			out.Recovered = true
			return
		}
		out.RecoverErr = re + se
		time.Sleep(300 * time.Millisecond)
	}
	return
}

// TestVerifC02Child is the child side.
func TestVerifC02Child(t *testing.T) {
	p := os.Getenv("VERIF_C02_SCENARIOS")
	if p == "" {
		t.Skip()
	}
	b, err := ioutil.ReadFile(p)
	if err != nil {
		t.Fatal(err)
	}
	var scs []Scenario
	if err := json.Unmarshal(b, &scs); err != nil {
		t.Fatal(err)
	}
	w := bufio.NewWriter(os.Stdout)
	for i, sc := range scs {
		fmt.Fprintf(w, "\nVERIF-START %d\n", i)
		w.Flush()
		out := runScenario(sc)
		ob, _ := json.Marshal(out)
		fmt.Fprintf(w, "\nVERIF-DONE %d %s\n", i, ob)
		w.Flush()
		if out.Hang != "" {
			os.Exit(3)
		}
	}
	w.Flush()
	os.Exit(0)
}

func tail(s string, n int) string {
	if len(s) > n {
		return "..." + s[len(s)-n:]
	}
	return s
}

// runScenarios runs scenarios in disposable child processes.
func runScenarios(scs []Scenario, each func(i int, sc Scenario, out *Outcome, crashed bool, log string)) error {
	dir := os.Getenv("VERIF_SCRATCH")
	if dir == "" {
		dir = os.TempDir()
	}
	next := 0
	const batchSize = 25 // sessions are never shut down: bound what a child accumulates
	for next < len(scs) {
		end := next + batchSize
		if end > len(scs) {
			end = len(scs)
		}
		batch := scs[next:end]
		f := filepath.Join(dir, fmt.Sprintf("c02-%d-%d.json", os.Getpid(), next))
		b, _ := json.Marshal(batch)
		if err := ioutil.WriteFile(f, b, 0666); err != nil {
			return err
		}
		cmd := osexec.Command(os.Args[0], "-test.run", "^TestVerifC02Child$", "-test.timeout", "7200s")
		cmd.Env = append(os.Environ(), "VERIF_C02_SCENARIOS="+f, "VERIF_STATS=")
		cmd.SysProcAttr = &syscall.SysProcAttr{Setpgid: true}
		logf := f + ".log"
		lf, err := os.Create(logf)
		if err != nil {
			return err
		}
		cmd.Stdout = lf
		cmd.Stderr = lf
		if err := cmd.Start(); err != nil {
			return err
		}
		done := make(chan error, 1)
		go func() { done <- cmd.Wait() }()
		select {
		case <-done:
		case <-time.After(time.Duration(len(batch))*runTimeout*5 + 5*time.Minute):
			syscall.Kill(-cmd.Process.Pid, syscall.SIGKILL)
			<-done
		}
		syscall.Kill(-cmd.Process.Pid, syscall.SIGKILL)
		lf.Close()
		lb, _ := ioutil.ReadFile(logf)
		os.Remove(logf)
		os.Remove(f)
		log := string(lb)
		started, finished := -1, -1
		outs := map[int]*Outcome{}
		sc := bufio.NewScanner(strings.NewReader(log))
		sc.Buffer(make([]byte, 1<<20), 1<<28)
		for sc.Scan() {
			line := sc.Text()
			var i int
			if n, _ := fmt.Sscanf(line, "VERIF-START %d", &i); n == 1 {
				started = i
			}
			if strings.HasPrefix(line, "VERIF-DONE ") {
				rest := strings.TrimPrefix(line, "VERIF-DONE ")
				if sp := strings.IndexByte(rest, ' '); sp > 0 {
					fmt.Sscanf(rest[:sp], "%d", &i)
					var o Outcome
					if json.Unmarshal([]byte(rest[sp+1:]), &o) == nil {
						outs[i] = &o
						finished = i
					}
				}
			}
		}
		for i := 0; i <= finished; i++ {
			if o := outs[i]; o != nil {
				each(next+i, batch[i], o, false, "")
			}
		}
		switch {
		case finished == len(batch)-1:
			next = end
		case started > finished:
			each(next+started, batch[started], &Outcome{}, true, log)
			next += started + 1
		case finished >= 0 && outs[finished].Hang != "":
			next += finished + 1
		default:
			return fmt.Errorf("child exited without progress (started=%d finished=%d):\n%s", started, finished, tail(log, 3000))
		}
	}
	return nil
}

const firstRunFailed = "first-run-failed:"

// judge applies the oracle.
func judge(sc Scenario, out *Outcome, crashed bool, log string) (violation, sig string) {
	if crashed {
		return "the process died during the scenario\n" + tail(log, 6000), "crash:" + sc.Program
	}
	if strings.HasPrefix(out.RunErr, "harness:") {
		return out.RunErr, "harness"
	}
	if out.Hang != "" {
		return fmt.Sprintf("run or scan did not return within %v (blocked forever?)\n%s", runTimeout, out.Hang), "hang:" + sc.Program
	}
	if out.RowsDiff != "" {
		return "success was reported with rows that differ from a failure-free run: " + out.RowsDiff, "wrong-rows:" + sc.Program
	}
	if sc.Trace {
		if out.RunErr != "" || out.ScanErr != "" {
			return "failure-free run failed: " + out.RunErr + out.ScanErr, "trace-failed:" + sc.Program
		}
		return "", ""
	}
	if len(sc.Plan) == 1 && out.Fired > 0 && out.RunErr != "" && !strings.Contains(out.RunErr, "consecutive attempts") {
		// a single loss, after which losses have stopped and replacement machines can be started: the
		// run has to complete by recomputing what was lost (confirmed by repetition, see report)
		return "a single machine was lost, replacement machines could be started, yet Session.Run failed instead of recomputing the lost task outputs: " + tail(out.RunErr, 1200), firstRunFailed + sc.Program
	}
	if out.RescanFailed {
		return fmt.Sprintf("the first run reported success; after the losses stopped, three scans of its Result all failed (lost task outputs must be recomputed): %s", tail(out.RescanErr, 1500)), "no-rescan:" + sc.Program
	}
	if !out.Recovered {
		return fmt.Sprintf("after the losses stopped and replacement machines could be started, %d further attempts of the same Func all failed: %s", out.Attempts, tail(out.RecoverErr, 1500)), "no-recovery:" + sc.Program
	}
	return "", ""
}

func report(t *testing.T, rec *vt.Rec, test string, seen map[string]bool) func(i int, sc Scenario, out *Outcome, crashed bool, log string) {
	return func(i int, sc Scenario, out *Outcome, crashed bool, log string) {
		v, sig := judge(sc, out, crashed, log)
		nt := out.Fired > 0 || crashed
		classes := []string{"program:" + sc.Program}
		if sc.Second != "" {
			classes = append(classes, "second-scanner-during-reopen")
		}
		for _, tr := range sc.Plan {
			classes = append(classes, "kill-at:"+tr.Method)
		}
		if out.Fired > 0 && (out.RunErr != "" || out.ScanErr != "") {
			classes = append(classes, "first-run-reported-error")
			switch {
			case out.RunErr == "":
				classes = append(classes, "first-error:scan")
			case strings.Contains(out.RunErr, "consecutive attempts"):
				classes = append(classes, "first-error:run-gave-up-after-consecutive-losses")
			default:
				classes = append(classes, "first-error:run-other")
				rec.Sample("first-error:run-other", map[string]interface{}{"scenario": sc.String(), "run_err": tail(out.RunErr, 600)})
			}
		}
		if out.Fired > 0 && out.RunErr == "" && out.ScanErr == "" {
			classes = append(classes, "first-run-succeeded-despite-kill")
		}
		if out.Fired == 0 && len(sc.Plan) > 0 {
			classes = append(classes, "trigger-not-reached")
		}
		if strings.HasPrefix(sig, firstRunFailed) {
			// reported only if it is what this plan does, not what one unlucky schedule did: the same
			// scenario twice more, in fresh processes; every run in which the kill fires must fail alike
			repeated, fired := 0, 0
			_ = runScenarios([]Scenario{sc, sc}, func(_ int, _ Scenario, o *Outcome, crashed bool, _ string) {
				if crashed || o.Fired == 0 {
					return
				}
				fired++
				if o.RunErr != "" && !strings.Contains(o.RunErr, "consecutive attempts") {
					repeated++
				}
			})
			if fired == 0 || repeated < fired {
				classes = append(classes, "first-run-error-not-repeated")
				v, sig = "", ""
			} else {
				classes = append(classes, "first-run-error-repeated")
			}
		}
		rec.Case(nt, vt.Hash(sc.String()), classes...)
		if nt && rec.WantSample(sc.Program) {
			rec.Sample(sc.Program, map[string]interface{}{"scenario": sc.String(), "fired": out.Fired, "first_run_error": tail(out.RunErr+out.ScanErr, 160), "recovered_after_attempts": out.Attempts, "ms": out.Millis})
		}
		if v != "" {
			if !seen[sig] {
				seen[sig] = true
				rec.Violation(test, sig, sc.String()+": "+v, sc)
			}
			t.Errorf("%s: [%s] %s", sc.String(), sig, tail(v, 500))
		}
	}
}

var killMethods = []string{"Worker.Compile", "Worker.Run", "Worker.Stat", "Worker.Read", "Supervisor.Keepalive", "Worker.TaskStats", "Worker.FuncLocations"}

// plansFor enumerates every single-kill plan over the traced RPC counts.
func plansFor(program string, par int, counts map[string]int) []Scenario {
	var out []Scenario
	for _, m := range killMethods {
		n := counts[m]
		limit := 6
		if m == "Worker.Read" {
			limit = 40
		}
		if m == "Supervisor.Keepalive" || m == "Worker.TaskStats" {
			limit = 4
		}
		if n > limit {
			n = limit
		}
		for k := 0; k < n; k++ {
			if m == "Worker.Read" && (k < 12 || k >= counts[m]-3) {
				// the machine serving a read dies while the reply streams
				for _, cut := range []int{100, 3000, 20000} {
					out = append(out, Scenario{Program: program, Par: par, Plan: []faultsys.Trigger{{Method: m, N: k, Phase: "mid", Victim: "target", CutAfter: cut}}})
				}
			}
			for _, phase := range []string{"before", "after"} {
				for _, victim := range []string{"target", "other"} {
					if par == 1 && victim == "other" {
						continue // a single machine
					}
					out = append(out, Scenario{Program: program, Par: par, Plan: []faultsys.Trigger{{Method: m, N: k, Phase: phase, Victim: victim}}})
					if phase == "after" && victim == "target" {
						out = append(out, Scenario{Program: program, Par: par, Plan: []faultsys.Trigger{{Method: m, N: k, Phase: phase, Victim: victim, Drop: true}}})
						if m == "Worker.Run" || m == "Worker.Compile" || m == "Worker.Read" && k < 6 {
							// the reply reaches the driver only after it has learnt of the loss
							out = append(out, Scenario{Program: program, Par: par, Plan: []faultsys.Trigger{{Method: m, N: k, Phase: phase, Victim: victim, HoldMs: 1800}}})
						}
					}
				}
			}
		}
	}
	return out
}

const tSingle = "TestVerifC02SingleKill"

func TestVerifC02SingleKill(t *testing.T) {
	if os.Getenv("VERIF_C02_SCENARIOS") != "" {
		t.Skip()
	}
	rec := vt.New("C02", "single-kill-enumeration",
		"fault enumeration: for each program of the fault suite (map-only, reduce, fold, cogroup, two-stage shuffle, reshuffle root, repartition+flatmap, reshard, multi-batch map, a Reshuffle root with shards of tens of kilobytes, a Func over a reused Result, a reused Result fed directly into a shuffle, a Reduce whose shuffle streams carry thousands of rows; map-only and Reduce also on a cluster of a single machine) a traced failure-free run on the bigmachine test system (no machine combiners) gives the number of RPCs per method; then EVERY single-kill plan (method in {Worker.Compile, Worker.Run, Worker.Stat, Worker.Read incl. the reads of the final scan, Supervisor.Keepalive, Worker.TaskStats, Worker.FuncLocations} x occurrence (capped: 6, Worker.Read 40) x {before the call, after its reply, after its reply with the reply dropped, after its reply with the reply delivered 1.8 s later i.e. after the driver has learnt of the loss (Worker.Run/Compile/Read), and for Worker.Read while the reply streams (after 100 / 3000 / 20000 bytes)} x victim {the call's target, another machine}) is executed in a disposable child process (quick tier: a seeded sample of the plans); oracle: Run and scan either report an error or deliver exactly the reference rows, never block (150 s), and after the plan is disabled (a) if the first Run had succeeded, scanning its Result again delivers the reference rows within 3 attempts and (b) the same Func succeeds with the reference rows within 3 attempts; non-trivial = the kill fired; distinct by (program, plan)")
	seen := map[string]bool{}
	docs, only := vt.Replays(tSingle)
	if len(docs) > 0 {
		var scs []Scenario
		for _, d := range docs {
			var sc Scenario
			if err := json.Unmarshal(d.Case, &sc); err != nil {
				t.Fatal(err)
			}
			scs = append(scs, sc)
			for r := 1; r < sc.Repeat; r++ {
				scs = append(scs, sc)
			}
		}
		if err := runScenarios(scs, report(t, rec, tSingle, seen)); err != nil {
			t.Fatalf("harness: %v", err)
		}
	}
	if only || t.Failed() {
		return
	}
	// trace
	type variant struct {
		program string
		par     int
	}
	var variants []variant
	for _, p := range suite {
		variants = append(variants, variant{p, 0})
	}
	// a cluster of a single machine: every loss takes the whole cluster down
	variants = append(variants, variant{"map-only", 1}, variant{"reduce", 1})
	var traces []Scenario
	for _, v := range variants {
		traces = append(traces, Scenario{Program: v.program, Par: v.par, Trace: true})
	}
	counts := map[variant]map[string]int{}
	rep := report(t, rec, tSingle, seen)
	if err := runScenarios(traces, func(i int, sc Scenario, out *Outcome, crashed bool, log string) {
		if v, _ := judge(sc, out, crashed, log); v != "" || vt.Shard() == 0 {
			rep(i, sc, out, crashed, log)
		}
		counts[variant{sc.Program, sc.Par}] = out.Counts
	}); err != nil {
		t.Fatalf("harness: %v", err)
	}
	if t.Failed() {
		return
	}
	var all []Scenario
	for _, v := range variants {
		all = append(all, plansFor(v.program, v.par, counts[v])...)
	}
	if vt.Shard() == 0 {
		rec.Count("plans-enumerable", len(all))
	}
	var mine []Scenario
	step := 1
	if !vt.Thorough() {
		step = len(all)/330 + 1
	}
	picked := map[int]bool{}
	for i := (vt.Seed() * 7) % step; i < len(all); i += step {
		picked[i] = true
		if vt.Mine(i / step) {
			mine = append(mine, all[i])
		}
	}
	// always part of the quick sample: losses while a single-machine cluster boots, and the first reads
	// of the long shuffle streams breaking mid-stream
	k := 0
	for i, sc := range all {
		tr := sc.Plan[0]
		must := sc.Par == 1 && tr.Method == "Worker.FuncLocations" ||
			sc.Program == "big-reduce" && tr.Phase == "mid" && tr.N < 6 && tr.CutAfter >= 3000 ||
			// the machine serving the final scan dies while a shard streams: the scan re-evaluates the
			// shard and resumes; a recomputed shuffle output need not hold its rows in the same order
			tr.Method == "Worker.Read" && tr.Phase == "mid" && (tr.CutAfter == 100 || sc.Program == "big-reshuffle") && tr.N >= counts[variant{sc.Program, sc.Par}]["Worker.Read"]-3
		if must && !picked[i] {
			k++
			if vt.Mine(k) {
				mine = append(mine, sc)
			}
		}
	}
	// a second scanner recomputes the shard while the first scan's reader waits to reopen its stream
	for _, p := range []string{"reshard", "reshuffle-root", "big-reshuffle"} {
		n := counts[variant{p, 0}]["Worker.Read"]
		reps := 2
		if p == "reshard" {
			reps = 6 // about one recomputation in four lines up with the bytes already read
		}
		if vt.Thorough() {
			reps *= 4
		}
		for ord := n - 3; ord < n; ord++ {
			if ord < 0 {
				continue
			}
			for r := 0; r < reps; r++ {
				k++
				if vt.Mine(k) {
					mine = append(mine, Scenario{Program: p, Second: "scan", Rep: r, Plan: []faultsys.Trigger{{Method: "Worker.Read", N: ord, Phase: "mid", Victim: "target", CutAfter: 100}}})
				}
			}
		}
	}
	if err := runScenarios(mine, rep); err != nil {
		t.Fatalf("harness: %v", err)
	}
	rec.Exhaustive = vt.Thorough()
}

const tMulti = "TestVerifC02MultiKill"

func TestVerifC02MultiKill(t *testing.T) {
	if os.Getenv("VERIF_C02_SCENARIOS") != "" {
		t.Skip()
	}
	rec := vt.New("C02", "multi-kill-random",
		"rapid: batches of scenarios with 2..3 kills at generated (method, occurrence 0..12, phase, victim) points over the fault suite, executed in child processes; same oracle as single-kill-enumeration; non-trivial = at least one kill fired; distinct by (program, plan)")
	seen := map[string]bool{}
	docs, only := vt.Replays(tMulti)
	if len(docs) > 0 {
		var scs []Scenario
		for _, d := range docs {
			var sc Scenario
			if err := json.Unmarshal(d.Case, &sc); err != nil {
				t.Fatal(err)
			}
			scs = append(scs, sc)
		}
		if err := runScenarios(scs, report(t, rec, tMulti, seen)); err != nil {
			t.Fatalf("harness: %v", err)
		}
	}
	if only || t.Failed() {
		return
	}
	rapid.Check(t, func(rt *rapid.T) {
		var scs []Scenario
		for k := 0; k < 10; k++ {
			sc := Scenario{Program: rapid.SampledFrom(suite).Draw(rt, "program")}
			nk := rapid.IntRange(2, 3).Draw(rt, "nkills")
			for j := 0; j < nk; j++ {
				tr := faultsys.Trigger{
					Method: rapid.SampledFrom([]string{"Worker.Compile", "Worker.Run", "Worker.Run", "Worker.Stat", "Worker.Read", "Worker.Read", "Supervisor.Keepalive"}).Draw(rt, "method"),
					N:      rapid.IntRange(0, 12).Draw(rt, "n"),
					Phase:  rapid.SampledFrom([]string{"before", "after"}).Draw(rt, "phase"),
					Victim: rapid.SampledFrom([]string{"target", "other"}).Draw(rt, "victim"),
				}
				tr.Drop = tr.Phase == "after" && rapid.Bool().Draw(rt, "drop")
				sc.Plan = append(sc.Plan, tr)
			}
			sort.Slice(sc.Plan, func(a, b int) bool { return sc.Plan[a].Method+fmt.Sprint(sc.Plan[a].N) < sc.Plan[b].Method+fmt.Sprint(sc.Plan[b].N) })
			scs = append(scs, sc)
		}
		failed := ""
		rep := report(t, rec, tMulti, seen)
		err := runScenarios(scs, func(i int, sc Scenario, out *Outcome, crashed bool, log string) {
			rep(i, sc, out, crashed, log)
			if v, _ := judge(sc, out, crashed, log); v != "" && failed == "" {
				failed = sc.String() + ": " + tail(v, 300)
			}
		})
		if err != nil {
			rt.Fatalf("harness: %v", err)
		}
		if failed != "" {
			rt.Fatalf("%s", failed)
		}
	})
}
