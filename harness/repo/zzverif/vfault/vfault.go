//go:build verif
// +build verif

// Package vfault registers a fault-injecting file implementation for the
// scheme "vfault://": it delegates to the local implementation of
// grailbio/base/file and fails the k-th operation of a chosen kind.
package vfault

import (
	"context"
	"errors"
	"io"
	"strings"
	"sync"
	"time"

	"github.com/grailbio/base/file"
)

// Kinds of operations that can be failed.
var Kinds = []string{"create", "write", "close", "discard", "open", "stat", "seek", "read", "remove", "list"}

// Fault fails the N-th (0-based) operation of Kind; if Persistent, every
// later one too. Short: a failing write/read transfers half of the bytes first.
type Fault struct {
	Kind       string `json:"kind"`
	N          int    `json:"n"`
	Persistent bool   `json:"persistent"`
	Short      bool   `json:"short,omitempty"`
}

// ErrInjected is returned by failed operations.
var ErrInjected = errors.New("vfault: injected file error")

var (
	mu     sync.Mutex
	plan   []Fault
	counts = map[string]int{}
	fired  int
	reads  = map[string]int{} // local path -> number of Read calls on files opened through this implementation
)

// Set installs a fault plan and zeroes the counters.
func Set(p []Fault) {
	mu.Lock()
	plan = p
	counts = map[string]int{}
	fired = 0
	reads = map[string]int{}
	mu.Unlock()
}

// ReadPaths returns, per local path, how many Read calls were made since Set.
func ReadPaths() map[string]int {
	mu.Lock()
	defer mu.Unlock()
	m := map[string]int{}
	for k, v := range reads {
		m[k] = v
	}
	return m
}

// Counts returns the number of operations seen per kind since Set.
func Counts() map[string]int {
	mu.Lock()
	defer mu.Unlock()
	m := map[string]int{}
	for k, v := range counts {
		m[k] = v
	}
	return m
}

// Fired returns how many operations were failed since Set.
func Fired() int {
	mu.Lock()
	defer mu.Unlock()
	return fired
}

// hit counts an operation and tells whether it must fail (and whether short).
func hit(kind string) (fail, short bool) {
	mu.Lock()
	defer mu.Unlock()
	n := counts[kind]
	counts[kind]++
	for _, f := range plan {
		if f.Kind != kind {
			continue
		}
		if n == f.N || (f.Persistent && n > f.N) {
			fired++
			return true, f.Short
		}
	}
	return false, false
}

const scheme = "vfault"

func init() {
	file.RegisterImplementation(scheme, func() file.Implementation { return impl{} })
}

// Path turns a local path into a vfault path.
func Path(local string) string { return scheme + "://" + local }

func strip(path string) string { return strings.TrimPrefix(path, scheme+"://") }

type impl struct{}

func local() file.Implementation { return file.FindImplementation("") }

func (impl) String() string { return scheme }

func (impl) Open(ctx context.Context, path string, opts ...file.Opts) (file.File, error) {
	if fail, _ := hit("open"); fail {
		return nil, ErrInjected
	}
	f, err := local().Open(ctx, strip(path), opts...)
	if err != nil {
		return nil, err
	}
	return &wrapped{File: f, path: strip(path)}, nil
}

func (impl) Create(ctx context.Context, path string, opts ...file.Opts) (file.File, error) {
	if fail, _ := hit("create"); fail {
		return nil, ErrInjected
	}
	f, err := local().Create(ctx, strip(path), opts...)
	if err != nil {
		return nil, err
	}
	return &wrapped{File: f}, nil
}

func (impl) List(ctx context.Context, path string, recursive bool) file.Lister {
	if fail, _ := hit("list"); fail {
		return errLister{}
	}
	return &lister{local().List(ctx, strip(path), recursive)}
}

func (impl) Stat(ctx context.Context, path string, opts ...file.Opts) (file.Info, error) {
	if fail, _ := hit("stat"); fail {
		return nil, ErrInjected
	}
	return local().Stat(ctx, strip(path), opts...)
}

func (impl) Remove(ctx context.Context, path string) error {
	if fail, _ := hit("remove"); fail {
		return ErrInjected
	}
	return local().Remove(ctx, strip(path))
}

func (impl) Presign(ctx context.Context, path, method string, expiry time.Duration) (string, error) {
	return "", errors.New("vfault: presign not supported")
}

type lister struct{ file.Lister }

func (l *lister) Path() string { return Path(l.Lister.Path()) }

type errLister struct{}

func (errLister) Scan() bool      { return false }
func (errLister) Err() error      { return ErrInjected }
func (errLister) Path() string    { return "" }
func (errLister) IsDir() bool     { return false }
func (errLister) Info() file.Info { return nil }

type wrapped struct {
	file.File
	path string
}

func (w *wrapped) Stat(ctx context.Context) (file.Info, error) {
	if fail, _ := hit("stat"); fail {
		return nil, ErrInjected
	}
	return w.File.Stat(ctx)
}

func (w *wrapped) Reader(ctx context.Context) io.ReadSeeker {
	return &reader{w.File.Reader(ctx), w.path}
}

func (w *wrapped) Writer(ctx context.Context) io.Writer {
	return &writer{w.File.Writer(ctx)}
}

func (w *wrapped) Close(ctx context.Context) error {
	if fail, _ := hit("close"); fail {
		// a failed close does not commit: the local implementation commits by rename on close
		w.File.Discard(ctx)
		return ErrInjected
	}
	return w.File.Close(ctx)
}

func (w *wrapped) Discard(ctx context.Context) {
	hit("discard")
	w.File.Discard(ctx)
}

type reader struct {
	io.ReadSeeker
	path string
}

func (r *reader) Read(p []byte) (int, error) {
	mu.Lock()
	reads[r.path]++
	mu.Unlock()
	if fail, short := hit("read"); fail {
		if short && len(p) > 1 {
			n, _ := r.ReadSeeker.Read(p[:len(p)/2])
			return n, ErrInjected
		}
		return 0, ErrInjected
	}
	return r.ReadSeeker.Read(p)
}

func (r *reader) Seek(off int64, whence int) (int64, error) {
	if fail, _ := hit("seek"); fail {
		return 0, ErrInjected
	}
	return r.ReadSeeker.Seek(off, whence)
}

type writer struct{ io.Writer }

func (w *writer) Write(p []byte) (int, error) {
	if fail, short := hit("write"); fail {
		if short && len(p) > 1 {
			n, _ := w.Writer.Write(p[:len(p)/2])
			return n, ErrInjected
		}
		return 0, ErrInjected
	}
	return w.Writer.Write(p)
}
