//go:build verif
// +build verif

// Package faultsys provides a bigmachine.System for tests that embeds the
// in-process test system and interposes on every RPC of driver and workers:
// it counts calls per method and kills machines at chosen call ordinals.
package faultsys

import (
	"runtime"
	"io/ioutil"
	"context"
	"fmt"
	"io"
	"math/rand"
	"net"
	"net/http"
	"strings"
	"sync"
	"time"

	"github.com/grailbio/bigmachine"
	"github.com/grailbio/bigmachine/testsystem"
)

// Trigger kills a machine when the Nth call (0-based) of Method is observed.
type Trigger struct {
	Method string `json:"method"` // e.g. "Worker.Run"
	N      int    `json:"n"`      // ordinal of the call among calls of Method
	Phase  string `json:"phase"`  // before | after (after the reply was produced, before it is delivered) | mid (while the reply body streams)
	Victim string `json:"victim"` // target | other
	Drop   bool   `json:"drop"`   // after: drop the reply instead of delivering it
	CutAfter int  `json:"cut_after,omitempty"` // mid: the victim is killed and the stream breaks once this many bytes of the reply body were delivered
	HoldMs int    `json:"hold_ms,omitempty"` // after: deliver the reply only this long after the kill (the driver learns of the loss first)
}

// Event is one observed RPC (or kill).
type Event struct {
	Method string `json:"method"`
	Addr   string `json:"addr"`
	Kill   string `json:"kill,omitempty"`
}

// System is the interposing system.
type System struct {
	*testsystem.System
	client *http.Client

	mu      sync.Mutex
	counts  map[string]int
	plan    []Trigger
	fired   []bool
	Log     []Event
	Kills   int
	live    []*bigmachine.Machine
	used    map[string]bool
	Factor  float64 // load factor applied by Relax
	Reused  int // replacement machines that came up on a killed machine's address (and were replaced)
	enabled bool
}

// New creates a system with millisecond-scale keepalives.
func New(machineprocs int) *System {
	s := &System{System: testsystem.New(), counts: map[string]int{}, used: map[string]bool{}}
	s.Machineprocs = machineprocs
	s.KeepalivePeriod = 100 * time.Millisecond
	s.KeepaliveTimeout = 200 * time.Millisecond
	s.KeepaliveRpcTimeout = 100 * time.Millisecond
	s.client = &http.Client{Transport: &transport{s: s, base: &http.Transport{}}}
	return s
}

// HTTPClient implements bigmachine.System: every RPC goes through the interposer.
func (s *System) HTTPClient() *http.Client { return s.client }

// SetPlan installs a fault plan and enables it.
func (s *System) SetPlan(plan []Trigger) {
	s.mu.Lock()
	s.plan = plan
	s.fired = make([]bool, len(plan))
	s.enabled = true
	s.mu.Unlock()
}

// Disable stops all fault injection (losses stop).
func (s *System) Disable() {
	s.mu.Lock()
	s.enabled = false
	s.mu.Unlock()
}

// Counts returns a copy of the per-method call counts.
func (s *System) Counts() map[string]int {
	s.mu.Lock()
	defer s.mu.Unlock()
	m := map[string]int{}
	for k, v := range s.counts {
		m[k] = v
	}
	return m
}

// ResetCounts zeroes the call counts and the log.
func (s *System) ResetCounts() {
	s.mu.Lock()
	s.counts = map[string]int{}
	s.Log = nil
	s.mu.Unlock()
}

// Events returns a copy of the RPC log.
func (s *System) Events() []Event {
	s.mu.Lock()
	defer s.mu.Unlock()
	return append([]Event{}, s.Log...)
}

// Fired reports how many triggers fired.
func (s *System) Fired() int {
	s.mu.Lock()
	defer s.mu.Unlock()
	n := 0
	for _, f := range s.fired {
		if f {
			n++
		}
	}
	return n
}

// Start implements bigmachine.System; the machines are also recorded here so
// that looking one up never needs the test system's lock (which Kill holds
// while it waits for the victim's in-flight handlers).
func (s *System) Start(ctx context.Context, count int) ([]*bigmachine.Machine, error) {
	ms, err := s.System.Start(ctx, count)
	s.mu.Lock()
	for i := range ms {
		// never hand out an address a killed machine had (see killAndReserve)
		for tries := 0; s.used[ms[i].Addr] && tries < 20; tries++ {
			s.mu.Unlock()
			s.System.Kill(ms[i])
			repl, rerr := s.System.Start(ctx, 1)
			s.mu.Lock()
			s.Reused++
			if rerr != nil || len(repl) != 1 {
				break
			}
			ms[i] = repl[0]
		}
		s.used[ms[i].Addr] = true
	}
	s.live = append(s.live, ms...)
	s.mu.Unlock()
	return ms, err
}

func (s *System) machineByAddr(addr string) *bigmachine.Machine {
	s.mu.Lock()
	defer s.mu.Unlock()
	for _, m := range s.live {
		if strings.Contains(m.Addr, addr) {
			return m
		}
	}
	return nil
}

func (s *System) otherMachine(addr string) *bigmachine.Machine {
	s.mu.Lock()
	defer s.mu.Unlock()
	var booting *bigmachine.Machine
	for _, m := range s.live {
		if !strings.Contains(m.Addr, addr) {
			if m.State() == bigmachine.Running {
				return m
			}
			booting = m
		}
	}
	_ = booting // a machine that is still booting is not killed (see Kill)
	return nil
}

// Kill kills m (nil: a random live machine) synchronously.
func (s *System) Kill(m *bigmachine.Machine) bool {
	s.mu.Lock()
	if m == nil {
		// Only machines that have finished booting are chosen: the owner of a machine that dies while it
		// boots keeps retrying Supervisor.Register for up to 5 minutes (bigmachine), during which
		// startMachines returns none of the machines of that batch - slow, not wedged, and outside the
		// budgets of the checks.
		var running []*bigmachine.Machine
		for _, l := range s.live {
			if l.State() == bigmachine.Running {
				running = append(running, l)
			}
		}
		if len(running) > 0 {
			m = running[rand.Intn(len(running))]
		}
	}
	for i, l := range s.live {
		if l == m {
			s.live = append(s.live[:i:i], s.live[i+1:]...)
			break
		}
	}
	s.mu.Unlock()
	if m == nil {
		return false
	}
	return s.killAndReserve(m)
}

// killAndReserve kills m and then keeps its TCP address occupied for the rest
// of the process's life (connections are accepted and closed at once). Without
// this the test system can hand the port of a killed machine to a replacement
// machine: the driver's record of the dead machine then talks to a fresh
// worker that has none of its compiled invocations or task outputs - an
// artifact of running all "machines" on one host, not a loss scenario.
func (s *System) killAndReserve(m *bigmachine.Machine) bool {
	ok := s.System.Kill(m)
	if ok {
		addr := strings.TrimPrefix(strings.TrimPrefix(m.Addr, "http://"), "https://")
		if l, err := net.Listen("tcp", addr); err == nil {
			go func() {
				for {
					c, err := l.Accept()
					if err != nil {
						return
					}
					c.Close()
				}
			}()
		}
	}
	return ok
}

// kill kills m. The test system's Kill waits for the victim's in-flight
// handlers while holding its lock; a handler may itself be inside an RPC that
// fires another trigger, so the wait here is bounded (the kill then completes
// in the background; connections of the victim are severed immediately
// either way).
func (s *System) kill(m *bigmachine.Machine) string {
	s.mu.Lock()
	for i, l := range s.live {
		if l == m {
			s.live = append(s.live[:i:i], s.live[i+1:]...)
			break
		}
	}
	s.mu.Unlock()
	done := make(chan bool, 1)
	go func() { done <- s.killAndReserve(m) }()
	select {
	case ok := <-done:
		if ok {
			return m.Addr
		}
		return "not killed (already gone) " + m.Addr
	case <-time.After(2 * time.Second):
		return m.Addr + " (kill completing in the background)"
	}
}

// observe is called before (phase "before") and after (phase "after") an
// RPC; it returns whether the reply should be dropped.
func (s *System) observe(method, addr, phase string, ordinal int) (drop bool) {
	s.mu.Lock()
	var kill []Trigger
	if s.enabled {
		for i, t := range s.plan {
			if s.fired[i] || t.Method != method || t.N != ordinal || t.Phase != phase {
				continue
			}
			s.fired[i] = true
			kill = append(kill, t)
		}
	}
	s.mu.Unlock()
	for _, t := range kill {
		var m *bigmachine.Machine
		if t.Victim == "other" {
			m = s.otherMachine(addr)
		} else {
			m = s.machineByAddr(addr)
		}
		what := "no such machine"
		if m != nil {
			what = s.kill(m)
		}
		s.mu.Lock()
		s.Kills++
		s.Log = append(s.Log, Event{Method: method, Addr: addr, Kill: fmt.Sprintf("%s/%s -> %s", phase, t.Victim, what)})
		s.mu.Unlock()
		if t.Drop {
			drop = true
		}
		if t.HoldMs > 0 {
			time.Sleep(s.Stretch(time.Duration(t.HoldMs) * time.Millisecond))
		}
	}
	return drop
}

type transport struct {
	s    *System
	base http.RoundTripper
}

func (t *transport) CloseIdleConnections() {
	if c, ok := t.base.(interface{ CloseIdleConnections() }); ok {
		c.CloseIdleConnections()
	}
}

func (t *transport) RoundTrip(req *http.Request) (*http.Response, error) {
	method := req.URL.Path
	if i := strings.LastIndex(method, "/"); i >= 0 {
		method = method[i+1:]
	}
	addr := req.URL.Host
	s := t.s
	s.mu.Lock()
	ordinal := s.counts[method]
	s.counts[method]++
	if len(s.Log) < 4000 {
		s.Log = append(s.Log, Event{Method: method, Addr: addr})
	}
	s.mu.Unlock()
	s.observe(method, addr, "before", ordinal)
	resp, err := t.base.RoundTrip(req)
	if err == nil && resp != nil && resp.Body != nil {
		s.mu.Lock()
		for i, tr := range s.plan {
			if s.enabled && !s.fired[i] && tr.Phase == "mid" && tr.Method == method && tr.N == ordinal {
				i, tr := i, tr
				resp.Body = &cutBody{rc: resp.Body, remaining: tr.CutAfter, onCut: func() {
					s.mu.Lock()
					already := s.fired[i] || !s.enabled
					s.fired[i] = true
					s.mu.Unlock()
					if already {
						return
					}
					var m *bigmachine.Machine
					if tr.Victim == "other" {
						m = s.otherMachine(addr)
					} else {
						m = s.machineByAddr(addr)
					}
					what := "no such machine"
					if m != nil {
						what = s.kill(m)
					}
					s.mu.Lock()
					s.Kills++
					s.Log = append(s.Log, Event{Method: method, Addr: addr, Kill: fmt.Sprintf("mid-stream after %d bytes/%s -> %s", tr.CutAfter, tr.Victim, what)})
					s.mu.Unlock()
				}}
				break
			}
		}
		s.mu.Unlock()
	}
	if s.observe(method, addr, "after", ordinal) {
		if resp != nil && resp.Body != nil {
			resp.Body.Close()
		}
		return nil, fmt.Errorf("faultsys: reply of %s dropped after the machine was killed", method)
	}
	return resp, err
}

// cutBody delivers the first bytes of a reply body, then kills a machine and breaks the stream.
type cutBody struct {
	rc        io.ReadCloser
	remaining int
	onCut     func()
	cut       bool
}

func (c *cutBody) Read(p []byte) (int, error) {
	if c.cut {
		return 0, io.ErrUnexpectedEOF
	}
	if c.remaining <= 0 {
		c.cut = true
		c.onCut()
		return 0, io.ErrUnexpectedEOF
	}
	if len(p) > c.remaining {
		p = p[:c.remaining]
	}
	n, err := c.rc.Read(p)
	c.remaining -= n
	return n, err
}

func (c *cutBody) Close() error { return c.rc.Close() }

// LoadFactor is max(1, 1-minute load average per CPU), capped at 8.
func LoadFactor() float64 {
	b, err := ioutil.ReadFile("/proc/loadavg")
	if err != nil {
		return 1
	}
	var l1 float64
	if _, err := fmt.Sscanf(string(b), "%f", &l1); err != nil {
		return 1
	}
	f := l1 / float64(runtime.NumCPU())
	if f < 1 {
		return 1
	}
	if f > 8 {
		return 8
	}
	return f
}

// Relax stretches the keepalive timeouts (set before) by the host's load factor, so that a busy host
// does not make healthy machines look lost, and returns the factor; waits that depend on the
// detection of a loss ("sleep until the driver has noticed") must be stretched by it too.
func (s *System) Relax() float64 {
	f := LoadFactor()
	s.KeepaliveTimeout = time.Duration(float64(s.KeepaliveTimeout) * f)
	s.KeepaliveRpcTimeout = time.Duration(float64(s.KeepaliveRpcTimeout) * f)
	s.Factor = f
	return f
}

// Stretch scales a wait by the factor of the last Relax (1 if never relaxed).
func (s *System) Stretch(d time.Duration) time.Duration {
	if s.Factor <= 1 {
		return d
	}
	return time.Duration(float64(d) * s.Factor)
}
