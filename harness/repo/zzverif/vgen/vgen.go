//go:build verif
// +build verif

// Package vgen holds generators shared by the reader/codec/sort checks: a
// column type universe with deterministic value constructors, frames built
// from integer selectors, row extraction and comparison, destination frames
// with guard rows, destination-size schedules and chunking readers.
package vgen

import (
	"bytes"
	"context"
	"encoding/gob"
	"fmt"
	"io/ioutil"
	"reflect"
	"sort"
	"strings"

	"github.com/grailbio/bigslice/frame"
	"github.com/grailbio/bigslice/sliceio"
	"github.com/grailbio/bigslice/slicetype"
	"pgregory.net/rapid"
)

// GobStruct travels through gob (no custom codec).
type GobStruct struct {
	A int
	B string
}

// DictStr has a custom codec with per-stream session state (dictionary coding).
type DictStr string

type dictEnc struct{ ids map[DictStr]int }
type dictDec struct{ vals []DictStr }

var dictKey = frame.FreshKey()

func init() {
	frame.RegisterOps(func(slice []DictStr) frame.Ops {
		return frame.Ops{
			Less: func(i, j int) bool { return slice[i] < slice[j] },
			Encode: func(e frame.Encoder, i, j int) error {
				var st *dictEnc
				if e.State(dictKey, &st) {
					st.ids = map[DictStr]int{}
				}
				// codes: >= 0 reference to a known string; -1 followed by a new string
				codes := make([]int, 0, j-i)
				var fresh []string
				for _, v := range slice[i:j] {
					if id, ok := st.ids[v]; ok {
						codes = append(codes, id)
						continue
					}
					st.ids[v] = len(st.ids)
					codes = append(codes, -1)
					fresh = append(fresh, string(v))
				}
				if err := e.Encode(codes); err != nil {
					return err
				}
				return e.Encode(fresh)
			},
			Decode: func(d frame.Decoder, i, j int) error {
				var st *dictDec
				d.State(dictKey, &st)
				var codes []int
				var fresh []string
				if err := d.Decode(&codes); err != nil {
					return err
				}
				if err := d.Decode(&fresh); err != nil {
					return err
				}
				if len(codes) != j-i {
					return fmt.Errorf("DictStr: %d codes for %d rows", len(codes), j-i)
				}
				for k, c := range codes {
					switch {
					case c == -1:
						if len(fresh) == 0 {
							return fmt.Errorf("DictStr: missing fresh string")
						}
						st.vals = append(st.vals, DictStr(fresh[0]))
						slice[i+k] = DictStr(fresh[0])
						fresh = fresh[1:]
					case c >= 0 && c < len(st.vals):
						slice[i+k] = st.vals[c]
					default:
						return fmt.Errorf("DictStr: bad code %d", c)
					}
				}
				return nil
			},
		}
	})
}

// GobPair has a custom codec that hands the rows to gob as one slice - what a user codec written in a
// few lines does. gob does not transmit zero fields, so decoding relies on the destination rows being
// zero (as the stream decoder guarantees for every column).
type GobPair struct {
	A int
	B string
}

func init() {
	frame.RegisterOps(func(slice []GobPair) frame.Ops {
		return frame.Ops{
			Encode: func(e frame.Encoder, i, j int) error { return e.Encode(slice[i:j]) },
			Decode: func(d frame.Decoder, i, j int) error {
				p := slice[i:j:j]
				if err := d.Decode(&p); err != nil {
					return err
				}
				if len(p) != j-i || (j > i && &p[0] != &slice[i]) {
					return fmt.Errorf("GobPair: decoded %d rows for %d (or into other memory)", len(p), j-i)
				}
				return nil
			},
		}
	})
}

// ColType describes one column type of the universe.
type ColType struct {
	Name     string
	Typ      reflect.Type
	Keyable  bool // Less and Hash registered (usable as sort/shuffle key)
	Sortable bool // Less registered
	Val      func(k int) interface{}
	Less     func(a, b interface{}) bool
}

func ct(name string, zero interface{}, keyable bool, val func(k int) interface{}, less func(a, b interface{}) bool) ColType {
	return ColType{name, reflect.TypeOf(zero), keyable, less != nil, val, less}
}

var long = strings.Repeat("L", 300)

// Universe is the column type universe; indices are stable (they appear in
// replay files).
var Universe = []ColType{
	ct("int", int(0), true, func(k int) interface{} { return int(k - 3) }, func(a, b interface{}) bool { return a.(int) < b.(int) }),
	ct("string", "", true, func(k int) interface{} {
		switch {
		case k == 0:
			return ""
		case k%17 == 16:
			return long + fmt.Sprint(k)
		}
		return fmt.Sprintf("s%03d", k)
	}, func(a, b interface{}) bool { return a.(string) < b.(string) }),
	ct("int64", int64(0), true, func(k int) interface{} { return int64(k)*(1<<33) - (1 << 35) }, func(a, b interface{}) bool { return a.(int64) < b.(int64) }),
	ct("uint8", uint8(0), true, func(k int) interface{} { return uint8(k * 41) }, func(a, b interface{}) bool { return a.(uint8) < b.(uint8) }),
	ct("uint16", uint16(0), true, func(k int) interface{} { return uint16(k * 9001) }, func(a, b interface{}) bool { return a.(uint16) < b.(uint16) }),
	ct("int32", int32(0), true, func(k int) interface{} { return int32(k*100003 - 250000) }, func(a, b interface{}) bool { return a.(int32) < b.(int32) }),
	ct("uint64", uint64(0), true, func(k int) interface{} { return uint64(k) * 0x9E3779B97F4A7C15 }, func(a, b interface{}) bool { return a.(uint64) < b.(uint64) }),
	ct("float64", float64(0), true, func(k int) interface{} { return float64(k)*1.25 - 4 }, func(a, b interface{}) bool { return a.(float64) < b.(float64) }),
	ct("bytes", []byte(nil), true, func(k int) interface{} {
		if k == 0 {
			return []byte(nil)
		}
		return []byte(fmt.Sprintf("b%d", k))
	}, func(a, b interface{}) bool { return bytes.Compare(a.([]byte), b.([]byte)) < 0 }),
	ct("bool", false, true, func(k int) interface{} { return k%2 == 1 }, func(a, b interface{}) bool { return !a.(bool) && b.(bool) }),
	ct("int8", int8(0), true, func(k int) interface{} { return int8(k*37 - 100) }, func(a, b interface{}) bool { return a.(int8) < b.(int8) }),
	ct("int16", int16(0), true, func(k int) interface{} { return int16(k*1009 - 3000) }, func(a, b interface{}) bool { return a.(int16) < b.(int16) }),
	ct("uint32", uint32(0), true, func(k int) interface{} { return uint32(k) * 600000007 }, func(a, b interface{}) bool { return a.(uint32) < b.(uint32) }),
	// value-only types (no hash): indices >= FirstValueOnly
	ct("gobstruct", GobStruct{}, false, func(k int) interface{} { return GobStruct{k, fmt.Sprintf("g%d", k%7)} }, nil),
	ct("ints", []int(nil), false, func(k int) interface{} {
		if k == 0 {
			return []int(nil)
		}
		r := make([]int, k%4)
		for i := range r {
			r[i] = k + i
		}
		return r
	}, nil),
	ct("dictstr", DictStr(""), false, func(k int) interface{} { return DictStr(fmt.Sprintf("d%d", k%9)) }, func(a, b interface{}) bool { return a.(DictStr) < b.(DictStr) }),
	ct("map", map[string]int(nil), false, func(k int) interface{} {
		if k%3 == 0 {
			return map[string]int(nil)
		}
		return map[string]int{"k": k, fmt.Sprint(k): 1}
	}, nil),
	ct("gobpair", GobPair{}, false, func(k int) interface{} {
		p := GobPair{A: k % 3}
		if k%2 == 1 {
			p.B = fmt.Sprintf("p%d", k%5)
		}
		return p
	}, nil),
	// pointer-free fixed-size values whose size is not a power of two (20 and 12 bytes): frames copy
	// such values with size-specialised code
	ct("digest", Digest{}, false, func(k int) interface{} {
		var d Digest
		for i := range d {
			d[i] = byte(k*31 + i*7 + 1)
		}
		return d
	}, nil),
	ct("tri32", Tri32{}, false, func(k int) interface{} { return Tri32{int32(k), int32(k*3 + 1), int32(-k - 2)} }, nil),
}

// Digest is a 20-byte pointer-free array column type.
type Digest [20]byte

// Tri32 is a 12-byte pointer-free struct column type.
type Tri32 struct{ A, B, C int32 }

func init() {
	// gob assigns type ids process-globally in order of first use; encode every
	// universe type once, in a fixed order, so that the bytes of an encoded
	// stream are a pure function of its description (replays are reproducible).
	enc := gob.NewEncoder(ioutil.Discard)
	for _, u := range Universe {
		if err := enc.EncodeValue(reflect.MakeSlice(reflect.SliceOf(u.Typ), 1, 1)); err != nil {
			panic(err)
		}
	}
	_ = enc.Encode([]string{"x"})
	_ = enc.Encode([]int{1})
	_ = enc.Encode(uint32(1))
	_ = enc.Encode(true)
}

// NumKeyable is the number of leading universe entries usable as keys.
const NumKeyable = 13

// EqVal compares two column values; nil and empty slices/maps are equivalent
// (gob does not distinguish them).
func EqVal(a, b interface{}) bool {
	switch x := a.(type) {
	case []byte:
		y, ok := b.([]byte)
		return ok && bytes.Equal(x, y)
	case []int:
		y, ok := b.([]int)
		if !ok || len(x) != len(y) {
			return false
		}
		for i := range x {
			if x[i] != y[i] {
				return false
			}
		}
		return true
	case map[string]int:
		y, ok := b.(map[string]int)
		if !ok || len(x) != len(y) {
			return false
		}
		for k, v := range x {
			if w, ok := y[k]; !ok || v != w {
				return false
			}
		}
		return true
	}
	return a == b
}

// Row is one row of column values.
type Row []interface{}

// EqRow compares rows.
func EqRow(a, b Row) bool {
	if len(a) != len(b) {
		return false
	}
	for i := range a {
		if !EqVal(a[i], b[i]) {
			return false
		}
	}
	return true
}

// RowKey returns a canonical string for a row (for multiset comparison).
func RowKey(r Row) string {
	var b strings.Builder
	for _, v := range r {
		switch x := v.(type) {
		case []byte:
			fmt.Fprintf(&b, "B%q|", string(x))
		case []int:
			fmt.Fprintf(&b, "I%v|", []int(append([]int{}, x...)))
		case map[string]int:
			keys := make([]string, 0, len(x))
			for k := range x {
				keys = append(keys, k)
			}
			sort.Strings(keys)
			b.WriteString("M{")
			for _, k := range keys {
				fmt.Fprintf(&b, "%q:%d,", k, x[k])
			}
			b.WriteString("}|")
		default:
			fmt.Fprintf(&b, "%T:%#v|", v, v)
		}
	}
	return b.String()
}

func deepCopyVal(v interface{}) interface{} {
	switch x := v.(type) {
	case []byte:
		if x == nil {
			return []byte(nil)
		}
		return append([]byte{}, x...)
	case []int:
		if x == nil {
			return []int(nil)
		}
		return append([]int{}, x...)
	case map[string]int:
		if x == nil {
			return map[string]int(nil)
		}
		m := map[string]int{}
		for k, w := range x {
			m[k] = w
		}
		return m
	}
	return v
}

// Schema is a list of universe indices plus a key prefix.
type Schema struct {
	Cols   []int `json:"cols"`
	Prefix int   `json:"prefix"`
}

// Type returns the slicetype of the schema.
func (s Schema) Type() slicetype.Type {
	ts := make([]reflect.Type, len(s.Cols))
	for i, c := range s.Cols {
		ts[i] = Universe[c].Typ
	}
	return pfx{slicetype.New(ts...), s.Prefix}
}

type pfx struct {
	slicetype.Type
	p int
}

func (p pfx) Prefix() int { return p.p }

// Names returns the column type names.
func (s Schema) Names() []string {
	n := make([]string, len(s.Cols))
	for i, c := range s.Cols {
		n[i] = Universe[c].Name
	}
	return n
}

// RowOf builds the row for the given selectors.
func (s Schema) RowOf(sel []int) Row {
	r := make(Row, len(s.Cols))
	for i, c := range s.Cols {
		r[i] = Universe[c].Val(sel[i])
	}
	return r
}

// LessRow compares rows by the schema's key prefix.
func (s Schema) LessRow(a, b Row) bool {
	for c := 0; c < s.Prefix; c++ {
		l := Universe[s.Cols[c]].Less
		if l(a[c], b[c]) {
			return true
		}
		if l(b[c], a[c]) {
			return false
		}
	}
	return false
}

// KeyOf returns a canonical string of the key prefix of a row.
func (s Schema) KeyOf(r Row) string { return RowKey(r[:s.Prefix]) }

// GenSchema draws a schema: nkey leading keyable columns (prefix = nkey) when
// keyed, and up to maxCols columns. valueOnly allows non-keyable value columns.
func GenSchema(t *rapid.T, maxCols int, keyed bool, allowValueOnly bool) Schema {
	var s Schema
	n := rapid.IntRange(1, maxCols).Draw(t, "ncol")
	prefix := 1
	if keyed && n > 1 {
		prefix = rapid.IntRange(1, min(n, 3)).Draw(t, "prefix")
	}
	for i := 0; i < n; i++ {
		hi := len(Universe) - 1
		if !allowValueOnly || (keyed && i < prefix) || (!keyed && i == 0) {
			hi = NumKeyable - 1
		}
		s.Cols = append(s.Cols, rapid.IntRange(0, hi).Draw(t, "col"))
	}
	s.Prefix = prefix
	return s
}

func min(a, b int) int {
	if a < b {
		return a
	}
	return b
}

// GenRows draws n rows of selectors with values in [0, card).
func GenRows(t *rapid.T, ncol, n, card int) [][]int {
	rows := make([][]int, n)
	flat := rapid.SliceOfN(rapid.IntRange(0, card-1), n*ncol, n*ncol).Draw(t, "rows")
	for i := range rows {
		rows[i] = flat[i*ncol : (i+1)*ncol]
	}
	return rows
}

// SizeGen draws sizes biased to the boundaries the code cares about.
func SizeGen(max int) *rapid.Generator[int] {
	special := []int{0, 1, 2, 3, 7, 8, 9, 127, 128, 129, 255, 256, 257}
	var sp []int
	for _, s := range special {
		if s <= max {
			sp = append(sp, s)
		}
	}
	return rapid.OneOf(rapid.SampledFrom(sp), rapid.IntRange(0, max), rapid.IntRange(0, min(max, 12)))
}

// MakeFrame builds a frame from selector rows.
func (s Schema) MakeFrame(rows [][]int) frame.Frame {
	f := frame.Make(s.Type(), len(rows), len(rows))
	for c := range s.Cols {
		col := f.Value(c)
		for i, r := range rows {
			v := Universe[s.Cols[c]].Val(r[c])
			col.Index(i).Set(reflect.ValueOf(v))
		}
	}
	return f
}

// FrameOfRows builds a frame from value rows.
func (s Schema) FrameOfRows(rows []Row) frame.Frame {
	f := frame.Make(s.Type(), len(rows), len(rows))
	for c := range s.Cols {
		col := f.Value(c)
		for i, r := range rows {
			if r[c] == nil {
				continue
			}
			col.Index(i).Set(reflect.ValueOf(r[c]))
		}
	}
	return f
}

// Rows converts selector rows into value rows.
func (s Schema) Rows(rows [][]int) []Row {
	out := make([]Row, len(rows))
	for i, r := range rows {
		out[i] = s.RowOf(r)
	}
	return out
}

// FrameRows extracts (deep copies of) rows [0, n) of a frame.
func FrameRows(f frame.Frame, n int) []Row {
	out := make([]Row, n)
	for i := 0; i < n; i++ {
		r := make(Row, f.NumOut())
		for c := range r {
			r[c] = deepCopyVal(f.Index(c, i).Interface())
		}
		out[i] = r
	}
	return out
}

// ---------------------------------------------------------------------------
// Destination frames with guard rows.

const guardRows = 2
const sentinelSel = 5

// Dest is a destination view inside a larger parent frame whose rows outside
// the view hold sentinel values.
type Dest struct {
	s      Schema
	parent frame.Frame
	View   frame.Frame
	n      int
}

// NewDest allocates a destination view of n rows.
func (s Schema) NewDest(n int) *Dest {
	total := n + 2*guardRows
	sel := make([][]int, total)
	for i := range sel {
		r := make([]int, len(s.Cols))
		for c := range r {
			r[c] = sentinelSel
		}
		sel[i] = r
	}
	p := s.MakeFrame(sel)
	// The key prefix of a destination is the caller's business (ReadAll, scanners and FrameReader
	// hand in frames of prefix 1 whatever the stream's key is): what a reader delivers must not
	// depend on it, so it varies with the size.
	view := p.Slice(guardRows, guardRows+n).Prefixed(1 + n%len(s.Cols))
	return &Dest{s: s, parent: p, View: view, n: n}
}

// CheckGuards reports an error if a row outside the view was modified.
func (d *Dest) CheckGuards() error {
	want := d.s.RowOf(func() []int {
		r := make([]int, len(d.s.Cols))
		for c := range r {
			r[c] = sentinelSel
		}
		return r
	}())
	total := d.n + 2*guardRows
	all := FrameRows(d.parent, total)
	for i := 0; i < total; i++ {
		if i >= guardRows && i < guardRows+d.n {
			continue
		}
		if !EqRow(all[i], want) {
			return fmt.Errorf("row %d of the destination's parent storage (outside the %d-row view at offset %d) was modified: %v", i, d.n, guardRows, all[i])
		}
	}
	return nil
}

// ---------------------------------------------------------------------------
// Chunking reader.

// Chunk is one scripted Read result of a ChunkReader.
type Chunk struct {
	N   int  `json:"n"`   // rows delivered by this read (clamped to what is left and to the destination)
	EOF bool `json:"eof"` // deliver EOF together with the rows if these are the last rows
}

// ChunkReader delivers the rows of a frame following a chunk script; when the
// script is exhausted it keeps delivering with the last positive chunk size.
// Zero-sized chunks deliver (0, nil). If ErrAt >= 0 an error is returned once
// that many rows have been delivered.
type ChunkReader struct {
	F           frame.Frame
	Script      []Chunk
	EOFWithRows bool
	ErrAt       int
	Err         error
	pos         int
	step        int
	done        bool
	Reads       int
}

// NewChunkReader creates a chunk reader over f.
func NewChunkReader(f frame.Frame, script []Chunk, eofWithRows bool) *ChunkReader {
	return &ChunkReader{F: f, Script: script, EOFWithRows: eofWithRows, ErrAt: -1}
}

// Read implements sliceio.Reader.
func (c *ChunkReader) Read(ctx context.Context, out frame.Frame) (int, error) {
	c.Reads++
	if c.done {
		if c.Err != nil && c.ErrAt >= 0 {
			return 0, c.Err
		}
		return 0, sliceio.EOF
	}
	left := c.F.Len() - c.pos
	if c.ErrAt >= 0 && c.pos >= c.ErrAt {
		c.done = true
		return 0, c.Err
	}
	if left == 0 {
		c.done = true
		return 0, sliceio.EOF
	}
	n := out.Len()
	if c.step < len(c.Script) {
		n = c.Script[c.step].N
		c.step++
	} else {
		for i := len(c.Script) - 1; i >= 0; i-- {
			if c.Script[i].N > 0 {
				n = c.Script[i].N
				break
			}
		}
	}
	if n > out.Len() {
		n = out.Len()
	}
	if n > left {
		n = left
	}
	if c.ErrAt >= 0 && c.pos+n > c.ErrAt {
		n = c.ErrAt - c.pos
	}
	if n == 0 {
		return 0, nil
	}
	frame.Copy(out.Slice(0, n), c.F.Slice(c.pos, c.pos+n))
	c.pos += n
	if c.pos == c.F.Len() && c.EOFWithRows && c.ErrAt < 0 {
		c.done = true
		return n, sliceio.EOF
	}
	return n, nil
}

// GenScript draws a chunk script. zeros allows (0, nil) reads.
func GenScript(t *rapid.T, zeros bool, maxChunk int) []Chunk {
	n := rapid.IntRange(0, 6).Draw(t, "nchunks")
	s := make([]Chunk, n)
	for i := range s {
		lo := 1
		if zeros {
			lo = 0
		}
		s[i].N = rapid.IntRange(lo, maxChunk).Draw(t, "chunk")
	}
	return s
}

// GenDestSizes draws a destination-size schedule (every size >= 1). The
// schedule is cycled by readers.
func GenDestSizes(t *rapid.T, max int) []int {
	special := []int{1, 2, 3, 7, 8, 9, 127, 128, 129, 256}
	var sp []int
	for _, s := range special {
		if s <= max {
			sp = append(sp, s)
		}
	}
	g := rapid.OneOf(rapid.SampledFrom(sp), rapid.IntRange(1, max), rapid.IntRange(1, min(max, 5)))
	return rapid.SliceOfN(g, 1, 5).Draw(t, "dest")
}

// ReadResult is what Drain observed.
type ReadResult struct {
	Rows  []Row
	Err   error // nil means clean EOF
	Reads int
	// ErrRows are the rows the failing Read reported as read (n > 0) together with its error.
	ErrRows []Row
}

// Drain reads r to the end with destination views following sizes (cycled),
// checking the Reader contract on the way: 0 <= n <= len(dest), guard rows
// untouched, previously delivered frames unchanged. contract is non-nil if
// the contract was broken.
func (s Schema) Drain(ctx context.Context, r sliceio.Reader, sizes []int, maxReads int) (res ReadResult, contract error) {
	type kept struct {
		f    frame.Frame
		rows []Row
	}
	var keep []kept
	defer func() {
		if contract != nil {
			return
		}
		for i, k := range keep {
			now := FrameRows(k.f, len(k.rows))
			for j := range now {
				if !EqRow(now[j], k.rows[j]) {
					contract = fmt.Errorf("frame delivered by read %d was altered later: row %d now %v, was %v", i, j, now[j], k.rows[j])
					return
				}
			}
		}
	}()
	for i := 0; ; i++ {
		if i >= maxReads {
			return res, fmt.Errorf("reader did not finish within %d reads (%d rows so far)", maxReads, len(res.Rows))
		}
		d := s.NewDest(sizes[i%len(sizes)])
		n, err := r.Read(ctx, d.View)
		res.Reads++
		if n < 0 || n > d.View.Len() {
			return res, fmt.Errorf("read %d returned n=%d for a destination of %d rows", i, n, d.View.Len())
		}
		if e := d.CheckGuards(); e != nil {
			return res, fmt.Errorf("read %d: %v", i, e)
		}
		if err != nil && err != sliceio.EOF {
			res.Err = err
			res.ErrRows = FrameRows(d.View, n)
			return res, nil
		}
		rows := FrameRows(d.View, n)
		res.Rows = append(res.Rows, rows...)
		if n > 0 && len(keep) < 8 {
			keep = append(keep, kept{d.View.Slice(0, n), rows})
		}
		if err == sliceio.EOF {
			return res, nil
		}
	}
}

// SameSeq compares two row sequences.
func SameSeq(got, want []Row) error {
	for i := 0; i < len(got) && i < len(want); i++ {
		if !EqRow(got[i], want[i]) {
			return fmt.Errorf("row %d is %v, want %v", i, got[i], want[i])
		}
	}
	if len(got) != len(want) {
		return fmt.Errorf("got %d rows, want %d", len(got), len(want))
	}
	return nil
}

// SameMultiset compares two row multisets.
func SameMultiset(got, want []Row) error {
	m := map[string]int{}
	for _, r := range want {
		m[RowKey(r)]++
	}
	for _, r := range got {
		k := RowKey(r)
		if m[k] == 0 {
			return fmt.Errorf("row %v delivered more often than expected (or never expected)", r)
		}
		m[k]--
	}
	for k, n := range m {
		if n > 0 {
			return fmt.Errorf("row %s missing (%d times)", k, n)
		}
	}
	return nil
}
