//go:build verif
// +build verif

// Package c04 checks property C04: results do not depend on how the
// computation is executed.
package c04

import (
	"context"
	"encoding/json"
	"fmt"
	"os"
	"runtime"
	"strings"
	"testing"
	"time"

	"github.com/grailbio/bigslice/zzverif/progen"
	"github.com/grailbio/bigslice/zzverif/runner"
	"github.com/grailbio/bigslice/zzverif/vt"
	"pgregory.net/rapid"
)

func TestMain(m *testing.M) {
	runner.Quiet()
	code := m.Run()
	vt.Flush()
	os.Exit(code)
}

// Case is one program run under one configuration.
type Case struct {
	Spec     progen.Spec   `json:"spec"`
	Cfg      runner.Config `json:"cfg"`
	Counters bool          `json:"counters"`
}

var counterOps = []string{"map", "map", "filter", "flatmap", "fold", "reduce", "cogroup", "reshuffle", "repartition", "reshard", "prefixed", "writerfunc", "source"}

func genConfig(t *rapid.T) runner.Config {
	var c runner.Config
	c.Exec = rapid.SampledFrom([]string{"local", "bigmachine", "bigmachine"}).Draw(t, "exec")
	c.Parallelism = rapid.IntRange(1, 8).Draw(t, "parallelism")
	if c.Exec == "bigmachine" {
		c.Machineprocs = rapid.IntRange(1, 4).Draw(t, "machineprocs")
		c.MaxLoad = rapid.SampledFrom([]float64{0.3, 0.5, 0.95}).Draw(t, "maxload")
		c.MachineCombiners = rapid.Bool().Draw(t, "mc")
		c.NoShuffleReaders = rapid.Bool().Draw(t, "noshuffle")
	}
	c.Chunk = rapid.SampledFrom([]int{0, 1, 2, 4, 8, 16, 128}).Draw(t, "chunk")
	c.Canary = rapid.SampledFrom([]int{0, 1, 3, 256}).Draw(t, "canary")
	c.SpillBatch = rapid.SampledFrom([]int{0, 1, 2, 128}).Draw(t, "spill")
	return c
}

func dims(c runner.Config) (n int, classes []string) {
	add := func(ok bool, name string) {
		if ok {
			n++
			classes = append(classes, name)
		}
	}
	add(c.Exec == "bigmachine", "exec:bigmachine")
	add(c.MachineCombiners, "machine-combiners")
	add(c.NoShuffleReaders, "no-shuffle-readers")
	add(c.Chunk != 0 && c.Chunk != 128, "chunk!=128")
	add(c.Canary != 0 && c.Canary != 256, "canary!=256")
	add(c.SpillBatch != 0 && c.SpillBatch != 128, "spillbatch!=128")
	add(c.Exec == "bigmachine" && c.MaxLoad != 0.95, "maxload!=0.95")
	add(c.Exec == "bigmachine" && c.Machineprocs > 1, "machineprocs>1")
	return
}

const runTimeout = 120 * time.Second

func runCase(sess *runner.Session, c Case) (err error, sig string, wedged bool) {
	defer func() {
		if r := recover(); r != nil {
			s, stack := vt.PanicSig(r)
			err, sig = fmt.Errorf("panic: %v\n%s", r, stack), s
		}
	}()
	spec := c.Spec
	if e := progen.Annotate(&spec); e != nil {
		return fmt.Errorf("harness: %v", e), "harness", false
	}
	spec.RunID = runner.NewRunID()
	defer progen.DropEnv(spec.RunID)
	ref, e := progen.Eval(&spec, nil)
	if e != nil {
		return fmt.Errorf("harness: %v", e), "harness", false
	}
	var want int64
	counted := 0
	if c.Counters {
		for i, n := range spec.Nodes {
			if n.Fn != nil && n.Fn.Count && n.Fn.Ctx && ref.Calls[i] > 0 && progen.ReachesRoot(&spec, i) {
				want += int64(ref.Calls[i])
				counted++
			}
		}
	}
	ctx := context.Background()
	var rows []progen.Row
	var runErr, scanErr error
	var got int64
	unit := len(spec.Nodes[spec.Root()].Schema.Cols) == 0
	ok := runner.WithTimeout(runTimeout, func() {
		res, e := sess.Run(ctx, &spec)
		if e != nil {
			runErr = e
			return
		}
		got = progen.UserCounter.Value(res.Scope())
		if !unit {
			rows, scanErr = runner.Scan(ctx, res, spec.Nodes[spec.Root()].Schema)
		}
		res.Discard(ctx)
	})
	if !ok {
		buf := make([]byte, 1<<20)
		buf = buf[:runtime.Stack(buf, true)]
		return fmt.Errorf("under %s the program did not finish within %v\n%s", c.Cfg, runTimeout, buf), "hang:" + c.Cfg.Exec, true
	}
	if runErr != nil {
		return fmt.Errorf("under %s Run failed for a well-typed, failure-free program: %v", c.Cfg, runErr), "run-error:" + c.Cfg.Exec, false
	}
	if scanErr != nil {
		return fmt.Errorf("under %s scanning the result failed: %v", c.Cfg, scanErr), "scan-error:" + c.Cfg.Exec, false
	}
	if !unit {
		if e := progen.CheckRows(ref.Stages[spec.Root()], rows); e != nil {
			return fmt.Errorf("under %s the rows differ from the reference (which every configuration must equal): %v", c.Cfg, e), "rows:" + c.Cfg.Exec, false
		}
	}
	// the distributed executor may re-run a task it believes lost (e.g. a keepalive missed on a busy host)
	if e := progen.CheckObserversOpt(&spec, ref, progen.EnvOf(spec.RunID), rows, c.Cfg.Exec == "local"); e != nil && !unit {
		return fmt.Errorf("under %s: %v", c.Cfg, e), "observer:" + c.Cfg.Exec, false
	}
	if c.Counters && got != want {
		return fmt.Errorf("under %s the user counter aggregated over the result's tasks is %d; the program performs %d increments (%d counting operators)", c.Cfg, got, want, counted), "counter:" + c.Cfg.Exec, false
	}
	return nil, "", false
}

const testName = "TestVerifC04Configurations"

func TestVerifC04Configurations(t *testing.T) {
	rec := vt.New("C04", "configurations",
		"rapid: a configuration (executor local/bigmachine test system, machine procs 1..4, parallelism 1..8, max-load {0.3,0.5,0.95}, machine combiners on/off, reader shuffling on/off, vector size {1,2,4,8,16,128}, sort canary {1,3,256}, spill batch {1,2,128}) and 8 progen programs (with Procs/Exclusive/Materialize pragma placements; half of them in counting mode: no Head, no sharing, functions increment a user counter) run in one session under that configuration; oracle: rows and observer streams equal the reference evaluation (hence equal across configurations) and the counter aggregated by Result.Scope() equals the reference invocation count; non-trivial = program has a shuffle and the configuration differs from the default in >= 2 dimensions; distinct by (program, configuration)")
	docs, only := vt.Replays(testName)
	for _, d := range docs {
		var c Case
		if err := json.Unmarshal(d.Case, &c); err != nil {
			t.Fatal(err)
		}
		rec.Case(true, vt.Hash(string(d.Case)), "replay")
		sess := runner.Start(c.Cfg)
		err, sig, wedged := runCase(sess, c)
		if !wedged {
			sess.Close()
		}
		if err != nil {
			rec.Violation(testName, sig, err.Error(), c)
			t.Errorf("replay: %v", err)
		}
	}
	if only || t.Failed() {
		return
	}
	defer rec.Commit(testName)
	rapid.Check(t, func(rt *rapid.T) {
		cfg := genConfig(rt)
		nd, dclasses := dims(cfg)
		sess := runner.Start(cfg)
		wedgedSess := false
		defer func() {
			if !wedgedSess {
				sess.Close()
			}
		}()
		for k := 0; k < 8; k++ {
			counters := k%2 == 1
			var spec *progen.Spec
			if counters {
				spec = progen.Gen(rt, progen.Opts{MaxOps: 6, Ops: counterOps, Counters: true, NoShare: true, NoScan: true, MaxRows: 200, Pragmas: true})
			} else {
				spec = progen.Gen(rt, progen.Opts{MaxOps: 7, MaxRows: 300, Pragmas: true})
			}
			c := Case{*spec, cfg, counters}
			b, _ := json.Marshal(c)
			pclasses, _ := progen.Classes(spec)
			shuffle := false
			for _, pc := range pclasses {
				if pc == "shuffle" {
					shuffle = true
				}
			}
			nt := shuffle && nd >= 2
			rec.Case(nt, vt.Hash(string(b)), dclasses...)
			if nt && rec.WantSample(cfg.Exec) {
				rec.Sample(cfg.Exec, map[string]interface{}{"config": cfg.String(), "program": progen.Summary(spec), "counting": counters})
			}
			err, sig, wedged := runCase(sess, c)
			if wedged {
				wedgedSess = true
			}
			if err != nil {
				rec.Pending(sig, err.Error(), c)
				rt.Fatalf("%v", err)
			}
		}
	})
}

var _ = strings.Contains

const contentionName = "TestVerifC04CombinerContention"

// TestVerifC04CombinerContention runs Reduce programs whose producer tasks share one machine and
// contend for the machine-wide combine buffers (machine combiners on), next to the same programs with
// machine combiners off and on the local executor: the rows must be the same everywhere.
func TestVerifC04CombinerContention(t *testing.T) {
	rec := vt.New("C04", "combiner-contention",
		"enumeration with repetition: ReaderFunc(2..4 shards x 400 rows over {8, 64, 300} keys, yielding the processor every 7 calls) -> Reduce under {local; bigmachine with machine combiners off / on} x machine procs {2, 4} with max-load 1.0 (several producer tasks of one Reduce run at the same time on one machine and share its combine buffers), each configuration repeated 6 (thorough 40) times in one session; oracle: rows equal the reference under every configuration; non-trivial = machine combiners on; distinct by (configuration, shards, keys, repetition)")
	if _, only := vt.Replays(contentionName); only {
		return
	}
	reps := vt.Pick(6, 40)
	idx := 0
	reported := false
	for _, cfg := range []runner.Config{
		{Exec: "local", Parallelism: 4},
		{Exec: "bigmachine", Parallelism: 4, Machineprocs: 2, MaxLoad: 1.0},
		{Exec: "bigmachine", Parallelism: 4, Machineprocs: 2, MaxLoad: 1.0, MachineCombiners: true},
		{Exec: "bigmachine", Parallelism: 4, Machineprocs: 4, MaxLoad: 1.0, MachineCombiners: true},
		{Exec: "bigmachine", Parallelism: 8, Machineprocs: 4, MaxLoad: 1.0, MachineCombiners: true, Chunk: 8},
	} {
		idx++
		if !vt.Mine(idx) {
			continue
		}
		sess := runner.Start(cfg)
		wedgedSess := false
		for rep := 0; rep < reps && !reported; rep++ {
			for _, nshard := range []int{2, 3, 4} {
				for _, nkeys := range []int{8, 64, 300} {
					src := progen.Node{Op: "readerfunc", Cols: []progen.Col{progen.TInt, progen.TInt}, NShard: nshard, ShardRows: make([][][]int, nshard), Fn: &progen.Fn{YieldN: 7}}
					for s := 0; s < nshard; s++ {
						for i := 0; i < 400; i++ {
							src.ShardRows[s] = append(src.ShardRows[s], []int{(i*7 + s) % nkeys, 1})
						}
					}
					spec := progen.Spec{Nodes: []progen.Node{src, {Op: "reduce", In: []int{0}, Fn: &progen.Fn{YieldN: 5}}}}
					c := Case{Spec: spec, Cfg: cfg}
					err, sig, wedged := runCase(sess, c)
					rec.Case(cfg.MachineCombiners, vt.Hash("contention", cfg.String(), nshard, nkeys, rep), "cfg:"+cfg.String())
					if cfg.MachineCombiners && rec.WantSample("contention") {
						rec.Sample("contention", map[string]interface{}{"cfg": cfg.String(), "nshard": nshard, "keys": nkeys})
					}
					if err != nil && !reported {
						reported = true
						rec.Violation(testName, sig, err.Error(), c)
						t.Errorf("%s, %d shards, %d keys, repetition %d: %v", cfg, nshard, nkeys, rep, err)
					}
					if wedged {
						wedgedSess = true
						break
					}
				}
				if wedgedSess {
					break
				}
			}
			if wedgedSess {
				break
			}
		}
		if !wedgedSess {
			sess.Close()
		}
	}
}
