//go:build verif
// +build verif

package exec

import (
	"context"
	"fmt"
	"reflect"
	"sync/atomic"
	"testing"
	"time"

	"github.com/grailbio/bigmachine/testsystem"
	"github.com/grailbio/bigslice/zzverif/progen"
	"github.com/grailbio/bigslice/zzverif/vt"
)

const c12Window = "TestVerifC12DiscardBeforeAssign"

// TestVerifC12DiscardBeforeAssign executes, for programs of 1..4 shards, the one interleaving that
// the black-box histories of C12/C19 hit only once in thousands of runs: (*bigmachineExecutor).Run
// publishes a task as complete (task.Set(TaskOk)) before it records the task with its machine
// (m.Assign). Session.Run returns as soon as the evaluator sees the roots complete, so a Discard issued
// right after Run can find a task that is complete and located but not yet assigned. The state
// "complete, located, not assigned" is constructed directly here (in-package), then Discard runs, then
// the executor's pending m.Assign; afterwards the task must be usable: its state is OK or LOST (not
// RUNNING with nobody running it), and a later evaluation and scan finish with the same rows.
func TestVerifC12DiscardBeforeAssign(t *testing.T) {
	rec := vt.New("C12", "discard-before-assign",
		"enumeration: programs of 1..4 one-task shards x which root task is caught between task.Set(TaskOk) and m.Assign (each one, and all) on the bigmachine test system; the window state is constructed in-package, Discard runs in it, then the pending Assign; oracle: no task is left RUNNING/WAITING without a runner, and re-evaluating and scanning the Result finishes (30 s) with the reference rows; non-trivial = every case; distinct by (shards, victim)")
	if _, only := vt.Replays(c12Window); only {
		return
	}
	ctx := context.Background()
	idx := 0
	for nshard := 1; nshard <= 4; nshard++ {
		for victim := -1; victim < nshard; victim++ {
			idx++
			if !vt.Mine(idx) {
				continue
			}
			err := func() error {
				sys := testsystem.New()
				sys.Machineprocs = 2
				sys.KeepalivePeriod, sys.KeepaliveTimeout, sys.KeepaliveRpcTimeout = time.Second, 20*time.Second, 10*time.Second
				sess := Start(Bigmachine(sys), Parallelism(4))
				defer sess.Shutdown()
				src := progen.Node{Op: "readerfunc", Cols: []progen.Col{progen.TInt, progen.TInt}, NShard: nshard, ShardRows: make([][][]int, nshard)}
				for s := 0; s < nshard; s++ {
					src.ShardRows[s] = [][]int{{s, 1}, {s + 10, 2}}
				}
				spec := &progen.Spec{Nodes: []progen.Node{src}}
				if e := progen.Annotate(spec); e != nil {
					return e
				}
				spec.RunID = int(atomic.AddInt64(&c14RunIDs, 1))
				defer progen.DropEnv(spec.RunID)
				ref, _ := progen.Eval(spec, nil)
				res, e := sess.Run(ctx, progen.Prog0, *spec)
				if e != nil {
					return fmt.Errorf("harness: run failed: %v", e)
				}
				ex := sess.executor.(*bigmachineExecutor)
				// wait until the executor goroutines have finished their bookkeeping, then undo the last step
				var caught []*Task
				for i, task := range res.tasks {
					if victim != -1 && victim != i {
						continue
					}
					deadline := time.Now().Add(10 * time.Second)
					for {
						m := ex.location(task)
						if m != nil {
							m.mu.Lock()
							_, ok := m.tasks[task]
							if ok {
								delete(m.tasks, task) // back to: Set(TaskOk) done, Assign pending
							}
							m.mu.Unlock()
							if ok {
								break
							}
						}
						if time.Now().After(deadline) {
							return fmt.Errorf("harness: task %s was never assigned", task.Name)
						}
						time.Sleep(time.Millisecond)
					}
					caught = append(caught, task)
				}
				res.Discard(ctx)
				for _, task := range caught {
					ex.location(task).Assign(task) // the executor goroutine's pending step
				}
				for _, task := range res.tasks {
					if st := task.State(); st != TaskOk && st != TaskLost {
						return fmt.Errorf("after Discard met task %s between its completion and its assignment to a machine, the task is %v although nobody is running it: every later evaluation that needs it waits forever", task.Name, st)
					}
				}
				var rows []progen.Row
				var serr error
				if !c12WithTimeout(30*time.Second, func() { rows, serr = c12Scan(ctx, res, spec.Nodes[0].Schema) }) {
					return fmt.Errorf("scanning the Result after the Discard did not finish within 30s (wedged)")
				}
				if serr != nil {
					return nil // a direct scan of discarded outputs may fail
				}
				if d := progen.CheckRows(ref.Stages[0], rows); d != nil {
					return fmt.Errorf("rows after Discard differ: %v", d)
				}
				return nil
			}()
			rec.Case(true, vt.Hash("window", nshard, victim), fmt.Sprintf("shards:%d", nshard))
			if rec.WantSample("window") {
				rec.Sample("window", map[string]interface{}{"nshard": nshard, "victim": victim})
			}
			if err != nil {
				rec.Violation(c12Window, "reuse:discard-at-completion", fmt.Sprintf("%d shards, victim %d: %v", nshard, victim, err), map[string]interface{}{"nshard": nshard, "victim": victim})
				t.Errorf("%d shards, victim %d: %v", nshard, victim, err)
				return
			}
		}
	}
	rec.Exhaustive = true
}

func c12WithTimeout(d time.Duration, f func()) bool {
	done := make(chan struct{})
	go func() {
		defer close(done)
		f()
	}()
	select {
	case <-done:
		return true
	case <-time.After(d):
		return false
	}
}

func c12Scan(ctx context.Context, res *Result, schema progen.Schema) (rows []progen.Row, err error) {
	sc := res.Scanner()
	defer func() {
		if cerr := sc.Close(); cerr != nil && err == nil {
			err = cerr
		}
	}()
	ptrs := make([]interface{}, len(schema.Cols))
	for c := range ptrs {
		ptrs[c] = reflect.New(progen.ColType(schema.Cols[c])).Interface()
	}
	for sc.Scan(ctx, ptrs...) {
		row := make(progen.Row, len(ptrs))
		for c := range row {
			row[c] = progen.CopyVal(reflect.ValueOf(ptrs[c]).Elem().Interface())
		}
		rows = append(rows, row)
	}
	return rows, sc.Err()
}
