//go:build verif
// +build verif

package exec

import (
	"time"
	"bytes"
	"context"
	"encoding/json"
	"fmt"
	"os"
	"path/filepath"
	"reflect"
	"sort"
	"testing"

	"github.com/grailbio/bigslice/frame"
	"github.com/grailbio/bigslice/internal/defaultsize"
	"github.com/grailbio/bigslice/slicefunc"
	"github.com/grailbio/bigslice/sliceio"
	"github.com/grailbio/bigslice/zzverif/vgen"
	"github.com/grailbio/bigslice/zzverif/vt"
	"pgregory.net/rapid"
)

// ---------------------------------------------------------------------------
// Part 1: combiningFrame, exhaustive over small alphabets.

// verifC09Keys finds nkeys int keys; if collide, all hash (with the table's
// seed) into the same slot of a size-8 table, so that every insertion probes.
func verifC09Keys(nkeys int, collide bool) []int {
	cand := make([]int, 4000)
	for i := range cand {
		cand[i] = i
	}
	f := frame.Slices(cand, make([]int, len(cand)))
	var keys []int
	for i := range cand {
		if !collide || int(f.HashWithSeed(i, hashSeed))&7 == 3 {
			keys = append(keys, cand[i])
			if len(keys) == nkeys {
				break
			}
		}
	}
	return keys
}

type verifC09Seq struct {
	Keys    []int `json:"keys"`    // key alphabet
	Seq     []int `json:"seq"`     // indices into Keys
	Scratch int   `json:"scratch"` // scratch size of the combining frame
	Compact int   `json:"compact"` // compact after this many rows (-1: never) and keep feeding
	Batch   int   `json:"batch"`   // rows per Combine call
	Init    int   `json:"init"`    // initial table size (power of two; 0 means 8)
}

var verifSumInt = func() slicefunc.Func {
	fn, _ := slicefunc.Of(func(a, b int) int { return a + b })
	return fn
}()

func verifC09RunSeq(c verifC09Seq) (resized bool, err error) {
	defer func() {
		if r := recover(); r != nil {
			_, stack := vt.PanicSig(r)
			err = fmt.Errorf("panic: %v\n%s", r, stack)
		}
	}()
	schema := vgen.Schema{Cols: []int{0, 0}, Prefix: 1}
	if c.Init == 0 {
		c.Init = 8
	}
	cf := makeCombiningFrame(schema.Type(), verifSumInt, c.Init, c.Scratch)
	model := map[int]int{}
	total := map[int]int{}
	var compacted [][2]int
	check := func(f frame.Frame, m map[int]int, what string) error {
		if f.Len() != len(m) {
			return fmt.Errorf("%s: %d rows for %d distinct keys", what, f.Len(), len(m))
		}
		seen := map[int]bool{}
		for i := 0; i < f.Len(); i++ {
			k := f.Index(0, i).Interface().(int)
			v := f.Index(1, i).Interface().(int)
			if seen[k] {
				return fmt.Errorf("%s: key %d appears twice", what, k)
			}
			seen[k] = true
			if w, ok := m[k]; !ok || w != v {
				return fmt.Errorf("%s: key %d has value %d, fold of what was fed is %d (present=%v)", what, k, v, w, ok)
			}
		}
		return nil
	}
	batch := c.Batch
	if batch < 1 {
		batch = 1
	}
	for pos := 0; pos < len(c.Seq); {
		if c.Compact == pos {
			if cf.Len() != len(model) {
				return resized, fmt.Errorf("Len() = %d with %d distinct keys fed", cf.Len(), len(model))
			}
			if cf.Cap() > c.Init {
				resized = true
			}
			f := cf.Compact()
			if e := check(f, model, "Compact() in mid-stream"); e != nil {
				return resized, e
			}
			for i := 0; i < f.Len(); i++ {
				compacted = append(compacted, [2]int{f.Index(0, i).Interface().(int), f.Index(1, i).Interface().(int)})
			}
			model = map[int]int{}
			if cf.Len() != 0 {
				return resized, fmt.Errorf("Len() = %d after Compact", cf.Len())
			}
		}
		end := pos + batch
		if end > len(c.Seq) {
			end = len(c.Seq)
		}
		if c.Compact > pos && c.Compact < end {
			end = c.Compact
		}
		ks := make([]int, end-pos)
		vs := make([]int, end-pos)
		for i := range ks {
			ks[i] = c.Keys[c.Seq[pos+i]]
			vs[i] = 1 + (pos+i)*1000
			model[ks[i]] += vs[i]
			total[ks[i]] += vs[i]
		}
		cf.Combine(frame.Slices(ks, vs))
		pos = end
		if cf.Len() != len(model) {
			return resized, fmt.Errorf("after %d rows Len() = %d, %d distinct keys fed", end, cf.Len(), len(model))
		}
	}
	if cf.Cap() > c.Init {
		resized = true
	}
	if cf.Cap()&(cf.Cap()-1) != 0 {
		return resized, fmt.Errorf("capacity %d is not a power of two", cf.Cap())
	}
	f := cf.Compact()
	if e := check(f, model, "Compact()"); e != nil {
		return resized, e
	}
	// everything fed is accounted for across the compactions
	sum := map[int]int{}
	for _, kv := range compacted {
		sum[kv[0]] += kv[1]
	}
	for i := 0; i < f.Len(); i++ {
		sum[f.Index(0, i).Interface().(int)] += f.Index(1, i).Interface().(int)
	}
	if !reflect.DeepEqual(sum, total) && (len(sum) != 0 || len(total) != 0) {
		return resized, fmt.Errorf("values lost or duplicated across compactions: got %v, fed %v", sum, total)
	}
	return resized, nil
}

const verifC09EnumName = "TestVerifC09CombiningFrameEnum"

func TestVerifC09CombiningFrameEnum(t *testing.T) {
	nkeys, maxLen := vt.Pick(6, 7), vt.Pick(6, 7)
	rec := vt.New("C09", "combining-frame-enum",
		fmt.Sprintf("complete enumeration of all key sequences of length <= %d over %d keys fed to makeCombiningFrame(typ, sum, init, scratch) with initial table sizes cycling {8,4,2,1} for two alphabets (all keys colliding into one slot of the size-8 table; unrelated keys), scratch sizes cycling 1..3, Combine batch sizes cycling 1..3, with a mid-stream Compact at a cycling position; oracle: map model (Len after every batch; one row per key with the folded value after Compact; nothing lost across compactions); non-trivial = the table was resized at least once; distinct by (alphabet, sequence)", maxLen, nkeys))
	docs, only := vt.Replays(verifC09EnumName)
	for _, d := range docs {
		var c verifC09Seq
		if err := json.Unmarshal(d.Case, &c); err != nil {
			t.Fatal(err)
		}
		rec.Case(true, vt.Hash(string(d.Case)), "replay")
		if _, err := verifC09RunSeq(c); err != nil {
			rec.Violation(verifC09EnumName, "combining-frame", err.Error(), c)
			t.Errorf("replay: %v", err)
		}
	}
	if only || t.Failed() {
		return
	}
	idx := 0
	reported := false
	for alpha, collide := range []bool{true, false} {
		keys := verifC09Keys(nkeys, collide)
		seq := make([]int, 0, maxLen)
		var rec1 func()
		rec1 = func() {
			idx++
			if vt.Mine(idx) {
				c := verifC09Seq{Keys: keys, Seq: append([]int{}, seq...), Scratch: 1 + idx%3, Batch: 1 + (idx/3)%3, Compact: -1, Init: []int{8, 4, 2, 1}[(idx/9)%4]}
				if len(seq) > 0 && idx%2 == 0 {
					c.Compact = (idx / 7) % len(seq)
				}
				if reported {
					return
				}
				var resized bool
				var err error
				if !verifC09Within(30*time.Second, func() { resized, err = verifC09RunSeq(c) }) {
					err = fmt.Errorf("feeding the key sequence did not return within 30s (the table is probing forever?)")
				}
				class := "collision-alphabet"
				if !collide {
					class = "plain-alphabet"
				}
				rec.Case(resized, vt.Hash(alpha, fmt.Sprint(seq)), class)
				if resized && rec.WantSample(class) {
					rec.Sample(class, c)
				}
				if err != nil && !reported {
					reported = true
					rec.Violation(verifC09EnumName, "combining-frame", err.Error(), c)
					t.Errorf("%+v: %v", c, err)
				}
			}
			if len(seq) == maxLen {
				return
			}
			for k := 0; k < nkeys; k++ {
				seq = append(seq, k)
				rec1()
				seq = seq[:len(seq)-1]
			}
		}
		rec1()
	}
	rec.Exhaustive = true
}

// ---------------------------------------------------------------------------
// Part 2: combiner with spills, random.

type verifC09Case struct {
	Schema  vgen.Schema `json:"schema"` // key columns + one value column
	Batches [][][]int   `json:"batches"`
	Target  int         `json:"target"`
	Chunk   int         `json:"chunk"`
	Spill   int         `json:"spill_batch"`
	WriteTo bool        `json:"write_to"`
	Dest    []int       `json:"dest"`
	// OpenFault: before the combiner is read, a spill file that cannot be opened (a symbolic link to
	// itself) is planted in its spill directory: reading must fail or succeed, and either way no spill
	// directory may remain.
	OpenFault bool `json:"open_fault,omitempty"`
	// Discard: the combiner is discarded instead of being read.
	Discard bool `json:"discard,omitempty"`
}

var verifC09ValTypes = []int{0, 2, 1, 7, 4}

func verifC09Combiner(u int) interface{} {
	switch vgen.Universe[u].Name {
	case "int":
		return func(a, b int) int { return a + b }
	case "int64":
		return func(a, b int64) int64 { return a ^ b }
	case "string":
		return func(a, b string) string {
			if a > b {
				return a
			}
			return b
		}
	case "float64":
		return func(a, b float64) float64 {
			if a > b {
				return a
			}
			return b
		}
	case "uint16":
		return func(a, b uint16) uint16 { return a + b }
	}
	panic("no combiner")
}

var verifC09Faulted, verifC09FaultErrs int

func verifC09SpillDirs() []string {
	m, _ := filepath.Glob(filepath.Join(os.TempDir(), "spiller-*"))
	return m
}

func verifC09Run(c verifC09Case) (spills int64, err error) {
	defer func() {
		if r := recover(); r != nil {
			_, stack := vt.PanicSig(r)
			err = fmt.Errorf("panic: %v\n%s", r, stack)
		}
	}()
	oldChunk, oldSpill := defaultsize.Chunk, sliceio.SpillBatchSize
	defaultsize.Chunk, sliceio.SpillBatchSize = c.Chunk, c.Spill
	defer func() { defaultsize.Chunk, sliceio.SpillBatchSize = oldChunk, oldSpill }()
	for _, d := range verifC09SpillDirs() {
		os.RemoveAll(d)
	}
	s := c.Schema
	v := len(s.Cols) - 1
	cfn := verifC09Combiner(s.Cols[v])
	fn, _ := slicefunc.Of(cfn)
	fold := func(a, b interface{}) interface{} {
		return reflect.ValueOf(cfn).Call([]reflect.Value{reflect.ValueOf(a), reflect.ValueOf(b)})[0].Interface()
	}
	ctx := context.Background()
	spills0 := combineDiskSpills.Value()
	comb, e := newCombiner(s.Type(), "verifc09", fn, c.Target)
	if e != nil {
		return 0, fmt.Errorf("newCombiner: %v", e)
	}
	want := map[string]vgen.Row{}
	for _, b := range c.Batches {
		for _, r := range s.Rows(b) {
			k := s.KeyOf(r)
			if w, ok := want[k]; ok {
				w[v] = fold(w[v], r[v])
			} else {
				want[k] = append(vgen.Row{}, r...)
			}
		}
		if e := comb.Combine(ctx, s.MakeFrame(b)); e != nil {
			return 0, fmt.Errorf("Combine: %v", e)
		}
	}
	spills = combineDiskSpills.Value() - spills0
	var rows []vgen.Row
	if c.Discard {
		if e := comb.Discard(); e != nil {
			return spills, fmt.Errorf("Discard: %v", e)
		}
		if d := verifC09SpillDirs(); len(d) > 0 {
			return spills, fmt.Errorf("spill directories remain after the combiner was discarded: %v", d)
		}
		return spills, nil
	}
	faulted := false
	if c.OpenFault && spills > 0 {
		if dirs := verifC09SpillDirs(); len(dirs) == 1 {
			sub, _ := filepath.Glob(filepath.Join(dirs[0], "*"))
			where := dirs[0]
			if len(sub) > 0 {
				if fi, e := os.Stat(sub[0]); e == nil && fi.IsDir() {
					where = sub[0]
				}
			}
			if os.Symlink("spill-zzverif", filepath.Join(where, "spill-zzverif")) == nil {
				faulted = true
			}
		}
	}
	if faulted {
		var e error
		if c.WriteTo {
			var buf bytes.Buffer
			_, e = comb.WriteTo(ctx, sliceio.NewEncodingWriter(&buf))
		} else {
			var r sliceio.Reader
			r, e = comb.Reader()
			if e == nil {
				_, _ = s.Drain(ctx, r, c.Dest, 20*len(want)+400)
			}
		}
		if d := verifC09SpillDirs(); len(d) > 0 {
			return spills, fmt.Errorf("spill directories remain after reading the combiner (a spill file could not be opened; read error: %v): %v", e, d)
		}
		verifC09Faulted++
		if e != nil {
			verifC09FaultErrs++
		}
		return spills, nil
	}
	if c.WriteTo {
		var buf bytes.Buffer
		n, e := comb.WriteTo(ctx, sliceio.NewEncodingWriter(&buf))
		if e != nil {
			return spills, fmt.Errorf("WriteTo: %v", e)
		}
		res, contract := s.Drain(ctx, sliceio.NewDecodingReader(&buf), c.Dest, 20*len(want)+400)
		if contract != nil || res.Err != nil {
			return spills, fmt.Errorf("reading back WriteTo output: %v %v", contract, res.Err)
		}
		rows = res.Rows
		if int(n) != len(rows) {
			return spills, fmt.Errorf("WriteTo reported %d rows, stream holds %d", n, len(rows))
		}
	} else {
		r, e := comb.Reader()
		if e != nil {
			return spills, fmt.Errorf("Reader: %v", e)
		}
		res, contract := s.Drain(ctx, r, c.Dest, 20*len(want)+400)
		if contract != nil {
			return spills, contract
		}
		if res.Err != nil {
			return spills, fmt.Errorf("combiner reader failed: %v", res.Err)
		}
		rows = res.Rows
	}
	if d := verifC09SpillDirs(); len(d) > 0 {
		return spills, fmt.Errorf("spill directories remain after the combiner was read: %v", d)
	}
	seen := map[string]bool{}
	for i, r := range rows {
		k := s.KeyOf(r)
		if seen[k] {
			return spills, fmt.Errorf("key %s emitted more than once", k)
		}
		seen[k] = true
		w, ok := want[k]
		if !ok {
			return spills, fmt.Errorf("emitted key %s was never fed", k)
		}
		if !vgen.EqRow(r, w) {
			return spills, fmt.Errorf("key %s: emitted %v, fold of the fed values is %v", k, r, w)
		}
		if i > 0 && !s.LessRow(rows[i-1], r) {
			return spills, fmt.Errorf("rows %d and %d are not in ascending key order: %v then %v", i-1, i, rows[i-1], r)
		}
	}
	if len(seen) != len(want) {
		return spills, fmt.Errorf("%d keys emitted, %d distinct keys fed", len(seen), len(want))
	}
	return spills, nil
}

const verifC09RandName = "TestVerifC09CombinerRandom"

func TestVerifC09CombinerRandom(t *testing.T) {
	rec := vt.New("C09", "combiner-random",
		"rapid: newCombiner over schemas with 1..3 key columns (13 keyable types) and a value column with a commutative, associative combiner; 1..12 batches of 0..300 rows with key cardinality 1..24 per column (skewed by small cardinalities); spill threshold 1..200 keys, table/scratch size (vector size) {1,2,4,8,128}, spill batch {1,2,128}; read through Reader() or WriteTo()+decode with destination-size schedules, or discarded, or read after a spill file that cannot be opened (a symbolic link to itself) was planted in the spill directory; oracle: one row per distinct key, ascending key order, value = fold, no spiller directory left in every one of these endings; non-trivial = at least one spill to disk; distinct by case hash")
	docs, only := vt.Replays(verifC09RandName)
	for _, d := range docs {
		var c verifC09Case
		if err := json.Unmarshal(d.Case, &c); err != nil {
			t.Fatal(err)
		}
		rec.Case(true, vt.Hash(string(d.Case)), "replay")
		if _, err := verifC09Run(c); err != nil {
			rec.Violation(verifC09RandName, "combiner", err.Error(), c)
			t.Errorf("replay: %v", err)
		}
	}
	if only || t.Failed() {
		return
	}
	defer rec.Commit(verifC09RandName)
	rapid.Check(t, func(rt *rapid.T) {
		var c verifC09Case
		nk := rapid.IntRange(1, 3).Draw(rt, "nkey")
		for i := 0; i < nk; i++ {
			c.Schema.Cols = append(c.Schema.Cols, rapid.IntRange(0, vgen.NumKeyable-1).Draw(rt, "keycol"))
		}
		c.Schema.Cols = append(c.Schema.Cols, rapid.SampledFrom(verifC09ValTypes).Draw(rt, "valcol"))
		c.Schema.Prefix = nk
		card := rapid.SampledFrom([]int{1, 2, 5, 24}).Draw(rt, "card")
		nb := rapid.IntRange(1, 12).Draw(rt, "nbatches")
		for i := 0; i < nb; i++ {
			c.Batches = append(c.Batches, vgen.GenRows(rt, nk+1, vgen.SizeGen(300).Draw(rt, "rows"), card))
		}
		c.Target = rapid.SampledFrom([]int{1, 2, 3, 10, 200}).Draw(rt, "target")
		c.Chunk = rapid.SampledFrom([]int{1, 2, 4, 8, 128}).Draw(rt, "chunk")
		c.Spill = rapid.SampledFrom([]int{1, 2, 128}).Draw(rt, "spillbatch")
		c.WriteTo = rapid.Bool().Draw(rt, "writeto")
		c.Dest = vgen.GenDestSizes(rt, 200)
		switch rapid.IntRange(0, 7).Draw(rt, "ending") {
		case 0:
			c.OpenFault = true
		case 1:
			c.Discard = true
		}
		b, _ := json.Marshal(c)
		faulted0, ferrs0 := verifC09Faulted, verifC09FaultErrs
		var spills int64
		var err error
		if !verifC09Within(120*time.Second, func() { spills, err = verifC09Run(c) }) {
			err = fmt.Errorf("combiner (vector size %d, spill threshold %d) did not finish within 120s", c.Chunk, c.Target)
		}
		classes := []string{}
		if verifC09Faulted > faulted0 {
			classes = append(classes, "spill-file-open-fault")
		}
		if verifC09FaultErrs > ferrs0 {
			classes = append(classes, "spill-file-open-fault:read-failed")
		}
		if c.Discard {
			classes = append(classes, "discarded")
		}
		if spills > 0 {
			classes = append(classes, "spilled")
		}
		if spills > 3 {
			classes = append(classes, "spilled>3")
		}
		if nk > 1 {
			classes = append(classes, "multi-column-key")
		}
		rec.Case(spills > 0, vt.Hash(string(b)), classes...)
		if spills > 0 && rec.WantSample("spilled") {
			lens := []int{}
			for _, bb := range c.Batches {
				lens = append(lens, len(bb))
			}
			rec.Sample("spilled", map[string]interface{}{"columns": c.Schema.Names(), "batch_rows": lens, "target": c.Target, "chunk": c.Chunk, "spill_batch": c.Spill, "spills": spills})
		}
		if err != nil {
			rec.Pending("combiner", err.Error(), c)
			rt.Fatalf("%v", err)
		}
	})
}

var _ = sort.Ints

// verifC09Within runs f and reports whether it returned in time (a f that never returns is left behind).
func verifC09Within(d time.Duration, f func()) bool {
	done := make(chan struct{})
	go func() {
		defer close(done)
		f()
	}()
	select {
	case <-done:
		return true
	case <-time.After(d):
		return false
	}
}
