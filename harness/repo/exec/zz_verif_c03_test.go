//go:build verif && go1.25
// +build verif,go1.25

package exec

// Property C03: the evaluator hands out tasks only when ready, reports success
// only when done, and always makes progress. exec.Eval is driven inside a
// testing/synctest bubble by a controllable Executor: synctest.Wait() returns
// exactly when every goroutine of the evaluation is durably blocked, which
// gives deterministic quiescent points at which outcome events are injected
// and invariants are checked.

import (
	"context"
	"encoding/json"
	"fmt"
	"net/http"
	"sort"
	"sync"
	"testing"
	"testing/synctest"

	"github.com/grailbio/base/eventlog"
	"github.com/grailbio/bigslice/sliceio"
	"github.com/grailbio/bigslice/zzverif/vt"
	"pgregory.net/rapid"
)

type c03Phase struct {
	N       int     `json:"n"`       // tasks in the phase
	Grouped bool    `json:"grouped"` // tasks share a Group (shuffle producers)
	Deps    [][]int `json:"deps"`    // per task: phases it depends on (earlier phases only)
}

type c03Case struct {
	Phases []c03Phase `json:"phases"`
	Roots  [][]int    `json:"roots"`  // per evaluation: phases whose tasks are its roots
	Init   []int      `json:"init"`   // per task: 0 INIT, 1 OK, 2 LOST, 3 ERR
	Events []int      `json:"events"` // selectors into the list of enabled events at each quiescent point
}

var c03States = []TaskState{TaskInit, TaskOk, TaskLost, TaskErr}

type c03Exec struct {
	mu          sync.Mutex
	tasks       []*Task
	index       map[*Task]int
	roots       [][]*Task // per eval
	outstanding map[int]bool
	handouts    int
	violations  []string
	started     []bool
	returned    []bool // evaluations that have returned (they need nothing any more)
	activeOnly  bool   // needed(): only evaluations that have not returned count
}

func (e *c03Exec) Name() string                              { return "verif-c03" }
func (e *c03Exec) Start(*Session) (shutdown func())          { return func() {} }
func (e *c03Exec) Reader(*Task, int) sliceio.ReadCloser      { return nil }
func (e *c03Exec) Discard(context.Context, *Task)            {}
func (e *c03Exec) Eventer() eventlog.Eventer                 { return eventlog.Nop{} }
func (e *c03Exec) HandleDebug(*http.ServeMux)                {}
func (e *c03Exec) violate(format string, args ...interface{}) {
	e.violations = append(e.violations, fmt.Sprintf(format, args...))
}

// needed tells whether task i is needed by some started evaluation: reachable
// from one of its roots through tasks that are not OK.
func (e *c03Exec) needed(i int, self int) bool {
	seen := map[*Task]bool{}
	var walk func(t *Task) bool
	walk = func(t *Task) bool {
		if seen[t] {
			return false
		}
		seen[t] = true
		for _, pt := range t.Phase() {
			if e.index[pt] == i {
				return true
			}
		}
		for _, pt := range t.Phase() {
			if e.index[pt] != self && pt.State() == TaskOk {
				continue
			}
			for _, d := range pt.Deps {
				if walk(d.Head) {
					return true
				}
			}
		}
		return false
	}
	for ev, rs := range e.roots {
		if !e.started[ev] || (e.activeOnly && ev < len(e.returned) && e.returned[ev]) {
			continue
		}
		for _, r := range rs {
			if e.index[r] == i {
				return true
			}
			if e.index[r] != self && r.State() == TaskOk {
				continue
			}
			for _, d := range r.Deps {
				if walk(d.Head) {
					return true
				}
			}
		}
	}
	return false
}

// Run is called by Eval (in a fresh goroutine) to hand a task to the executor.
func (e *c03Exec) Run(task *Task) {
	e.mu.Lock()
	defer e.mu.Unlock()
	i := e.index[task]
	e.handouts++
	if e.outstanding[i] {
		e.violate("S2: task %d handed out while an earlier hand-out of it is still outstanding", i)
	}
	e.outstanding[i] = true
	for _, d := range task.Deps {
		for k := 0; k < d.NumTask(); k++ {
			dt := d.Task(k)
			if st := dt.State(); st != TaskOk {
				e.violate("S1: task %d handed out while its dependency %d is %v", i, e.index[dt], st)
			}
		}
	}
	if !e.needed(i, i) {
		e.violate("S3: task %d handed out although no root of a running evaluation needs it", i)
	}
}

type c03Eval struct {
	done   chan struct{}
	err    error
	ret    bool
	judged bool
}

type c03Result struct {
	violation string
	events    int
	losses    int
	errs      int
	handouts  int
	nonInit   bool
	excludedS5 int
}

// c03Build constructs the task graph.
func c03Build(c c03Case) (tasks []*Task, phases [][]*Task) {
	for pi, p := range c.Phases {
		var ph []*Task
		for k := 0; k < p.N; k++ {
			t := &Task{Name: TaskName{Op: fmt.Sprintf("p%d", pi), Shard: k, NumShard: p.N}}
			ph = append(ph, t)
			tasks = append(tasks, t)
		}
		if p.Grouped {
			for _, t := range ph {
				t.Group = ph
			}
		}
		for k, t := range ph {
			var deps []int
			if k < len(p.Deps) {
				deps = p.Deps[k]
			}
			for _, dp := range deps {
				if dp < 0 || dp >= pi {
					continue
				}
				dph := phases[dp]
				if c.Phases[dp].Grouped {
					t.Deps = append(t.Deps, TaskDep{Head: dph[0], Partition: k})
				} else {
					t.Deps = append(t.Deps, TaskDep{Head: dph[k%len(dph)]})
				}
			}
		}
		phases = append(phases, ph)
	}
	return
}

type c03Enabled struct {
	kind string
	task int
}

// c03Run executes one case inside a bubble. enabledCounts (if non-nil)
// receives the number of enabled events at each step (for enumeration).
func c03Run(t *testing.T, c c03Case, enabledCounts *[]int) (res c03Result) {
	return c03RunOpt(t, c, enabledCounts, false)
}

// c03RunOpt: forceS5 applies the five-consecutive-losses check even with two
// evaluations (the class of a recorded known finding, otherwise excluded).
func c03RunOpt(t *testing.T, c c03Case, enabledCounts *[]int, forceS5 bool) (res c03Result) {
	defer func() {
		if r := recover(); r != nil {
			msg := fmt.Sprint(r)
			if msg == "deadlock: main bubble goroutine has exited but blocked goroutines remain" {
				// Eval leaks its watcher goroutines on the error path; outside the listed properties.
				return
			}
			if res.violation == "" {
				_, stack := vt.PanicSig(r)
				res.violation = fmt.Sprintf("panic: %v\n%s", r, stack)
			}
		}
	}()
	synctest.Test(t, func(t *testing.T) {
		tasks, phases := c03Build(c)
		ex := &c03Exec{tasks: tasks, index: map[*Task]int{}, outstanding: map[int]bool{}}
		for i, tk := range tasks {
			ex.index[tk] = i
			st := TaskInit
			if i < len(c.Init) {
				st = c03States[c.Init[i]%len(c03States)]
			}
			tk.state = st
			if st == TaskErr {
				tk.err = fmt.Errorf("failed in an earlier evaluation")
			}
			if st != TaskInit {
				res.nonInit = true
			}
		}
		for _, rp := range c.Roots {
			var rs []*Task
			for _, p := range rp {
				if p >= 0 && p < len(phases) {
					rs = append(rs, phases[p]...)
				}
			}
			ex.roots = append(ex.roots, rs)
		}
		ex.started = make([]bool, len(ex.roots))
		evals := make([]*c03Eval, len(ex.roots))
		ctx, cancel := context.WithCancel(context.Background())
		defer cancel()
		start := func(i int) {
			ex.mu.Lock()
			ex.started[i] = true
			ex.mu.Unlock()
			ev := &c03Eval{done: make(chan struct{})}
			evals[i] = ev
			roots := ex.roots[i]
			go func() {
				ev.err = Eval(ctx, ex, roots, nil)
				ev.ret = true
				close(ev.done)
			}()
		}
		consecutiveLost := make([]int, len(tasks))
		sawXlost := false
		// errJustified[i]: task i may legitimately be in TaskErr (it started there, a fatal error was
		// injected into it, or it was lost maxConsecutiveLost times in a row)
		errJustified := make([]bool, len(tasks))
		for i, tk := range tasks {
			errJustified[i] = tk.state == TaskErr
		}
		// Known finding (see known_findings.json): with two concurrent evaluations sharing a task, the
		// runner's watcher can miss a LOST state that the other evaluation already resubmitted, so
		// consecutive losses are miscounted. That class is excluded by construction and counted.
		s5off := len(c.Roots) > 1 && !forceS5
		anyErrState := func() bool {
			for _, tk := range tasks {
				if tk.State() == TaskErr {
					return true
				}
			}
			return false
		}
		fail := func(format string, args ...interface{}) {
			if res.violation == "" {
				res.violation = fmt.Sprintf(format, args...)
			}
		}
		check := func(step string) {
			synctest.Wait()
			ex.mu.Lock()
			defer ex.mu.Unlock()
			res.handouts = ex.handouts
			if len(ex.violations) > 0 {
				fail("%s: %s", step, ex.violations[0])
				return
			}
			running := 0
			for i, ev := range evals {
				if ev == nil {
					continue
				}
				if !ev.ret {
					running++
					continue
				}
				if ev.judged {
					continue // the return value was judged at the quiescent point at which it returned
				}
				ev.judged = true
				if ev.err == nil {
					for _, r := range ex.roots[i] {
						if st := r.State(); st != TaskOk {
							fail("%s: S4: evaluation %d reported success while its root %d is %v", step, i, ex.index[r], st)
							return
						}
					}
				} else if ev.err != context.Canceled && !anyErrState() {
					fail("%s: evaluation %d gave up with %q although no task failed fatally or was lost five times in a row", step, i, ev.err)
					return
				}
			}
			for i, tk := range tasks {
				if tk.State() == TaskErr && !errJustified[i] {
					fail("%s: S5: task %d is marked failed although no fatal error was injected into it and it was lost on at most %d consecutive attempts (lost tasks must be resubmitted until %d consecutive losses)", step, i, consecutiveLost[i], maxConsecutiveLost)
					return
				}
			}
			for _, ev := range evals {
				if ev != nil && ev.ret && ev.err != nil {
					// an evaluation has given up: tasks it was running are no longer watched by their runner,
					// so consecutive losses are no longer counted by anyone
					s5off = true
				}
			}
			for i, n := range consecutiveLost {
				if s5off {
					break
				}
				if n >= maxConsecutiveLost && tasks[i].State() != TaskErr {
					fail("%s: S5: task %d was lost on %d consecutive attempts but is %v, not failed", step, i, n, tasks[i].State())
					return
				}
			}
			// L3: a task that was never run, is needed by a running evaluation and has all its dependencies
			// complete is in the executor's hands at every quiescent point (the evaluator does not sit on
			// ready work while something unrelated is still running)
			// (not after an output loss of a completed task: the evaluator learns of such a loss only when
			// it next looks at the task, so what is "needed" is then not what it can know)
			if running > 0 && !sawXlost {
				ex.returned = make([]bool, len(evals))
				for i, ev := range evals {
					ex.returned[i] = ev != nil && ev.ret
				}
				ex.activeOnly = true
				defer func() { ex.activeOnly = false }()
				for i, tk := range tasks {
					if ex.outstanding[i] || tk.State() != TaskInit || !ex.needed(i, -1) {
						continue
					}
					ready := true
					for _, d := range tk.Deps {
						for k := 0; k < d.NumTask(); k++ {
							if d.Task(k).State() != TaskOk {
								ready = false
							}
						}
					}
					if ready {
						fail("%s: L3: task %d was never run, is needed and all of its dependencies are complete, yet it has not been handed to the executor while the evaluation waits for other tasks", step, i)
						return
					}
				}
			}
			if running > 0 && len(ex.outstanding) == 0 {
				var st []string
				for i, tk := range tasks {
					st = append(st, fmt.Sprintf("%d:%v", i, tk.State()))
				}
				fail("%s: L2: %d evaluation(s) have not returned, yet no task is handed out and nothing is running: idle with work outstanding (task states %v)", step, running, st)
			}
		}
		start(0)
		check("start")
		enabled := func() []c03Enabled {
			var out []c03Enabled
			var os []int
			for i := range ex.outstanding {
				os = append(os, i)
			}
			sort.Ints(os)
			for _, i := range os {
				out = append(out, c03Enabled{"ok", i}, c03Enabled{"lost", i}, c03Enabled{"err", i})
			}
			for i, tk := range tasks {
				if !ex.outstanding[i] && tk.State() == TaskOk {
					out = append(out, c03Enabled{"xlost", i})
				}
			}
			for i := range evals {
				if evals[i] == nil {
					out = append(out, c03Enabled{"start", i})
					break
				}
			}
			return out
		}
		apply := func(ev c03Enabled) {
			tk := (*Task)(nil)
			if ev.kind != "start" {
				tk = tasks[ev.task]
			}
			switch ev.kind {
			case "ok":
				delete(ex.outstanding, ev.task)
				consecutiveLost[ev.task] = 0
				tk.Set(TaskOk)
			case "lost":
				delete(ex.outstanding, ev.task)
				consecutiveLost[ev.task]++
				if consecutiveLost[ev.task] >= maxConsecutiveLost {
					errJustified[ev.task] = true
				}
				if consecutiveLost[ev.task] == maxConsecutiveLost && len(c.Roots) > 1 && !forceS5 {
					res.excludedS5++
				}
				res.losses++
				tk.Set(TaskLost)
			case "err":
				delete(ex.outstanding, ev.task)
				res.errs++
				errJustified[ev.task] = true
				tk.Error(fmt.Errorf("injected fatal error"))
			case "xlost":
				res.losses++
				sawXlost = true
				tk.Set(TaskLost)
			case "start":
				start(ev.task)
			}
		}
		for _, sel := range c.Events {
			if res.violation != "" {
				return
			}
			en := enabled()
			if enabledCounts != nil {
				*enabledCounts = append(*enabledCounts, len(en))
			}
			if len(en) == 0 {
				break
			}
			ev := en[sel%len(en)]
			if sel >= 1000 {
				// semantic selectors (loss-heavy histories): 1000 lose / 1001 complete the first outstanding
				// task, 1002 lose the output of the first completed task; fall back to the plain selector
				want := map[int]string{1000: "lost", 1001: "ok", 1002: "xlost"}[sel]
				for _, cand := range en {
					if cand.kind == want {
						ev = cand
						break
					}
				}
			}
			res.events++
			apply(ev)
			check(fmt.Sprintf("after event %d (%s task %d)", res.events, ev.kind, ev.task))
		}
		if res.violation != "" {
			return
		}
		// drain: start remaining evaluations, then complete everything successfully
		for i := range evals {
			if evals[i] == nil {
				start(i)
				check("drain: start")
			}
		}
		for step := 0; step < 30*len(tasks)+30; step++ {
			if res.violation != "" {
				return
			}
			all := true
			for _, ev := range evals {
				if !ev.ret {
					all = false
				}
			}
			if all {
				return
			}
			var os []int
			for i := range ex.outstanding {
				os = append(os, i)
			}
			sort.Ints(os)
			if len(os) == 0 {
				check("drain")
				if res.violation == "" {
					fail("drain: evaluations neither return nor hand out tasks")
				}
				return
			}
			apply(c03Enabled{"ok", os[0]})
			check("drain")
		}
		fail("drain: evaluations did not return although every handed-out task completed successfully (%d further steps)", 30*len(tasks)+30)
	})
	return
}

func c03Gen(t *rapid.T) c03Case {
	var c c03Case
	np := rapid.IntRange(1, 5).Draw(t, "nphases")
	ntasks := 0
	for pi := 0; pi < np; pi++ {
		p := c03Phase{N: rapid.IntRange(1, 3).Draw(t, "n")}
		p.Grouped = p.N > 1 && rapid.Bool().Draw(t, "grouped") || rapid.IntRange(0, 5).Draw(t, "group1") == 0
		for k := 0; k < p.N; k++ {
			var deps []int
			if pi > 0 {
				nd := rapid.IntRange(0, 2).Draw(t, "ndeps")
				if pi == np-1 || rapid.IntRange(0, 2).Draw(t, "chain") != 0 {
					if nd == 0 {
						nd = 1
					}
				}
				for d := 0; d < nd; d++ {
					deps = append(deps, rapid.IntRange(0, pi-1).Draw(t, "dep"))
				}
			}
			p.Deps = append(p.Deps, deps)
		}
		c.Phases = append(c.Phases, p)
		ntasks += p.N
	}
	nevals := rapid.SampledFrom([]int{1, 1, 2}).Draw(t, "nevals")
	for e := 0; e < nevals; e++ {
		roots := []int{np - 1}
		if e > 0 || rapid.IntRange(0, 3).Draw(t, "multiroot") == 0 {
			roots = append(roots[:0], rapid.IntRange(0, np-1).Draw(t, "root"))
			if rapid.Bool().Draw(t, "tworoots") {
				roots = append(roots, rapid.IntRange(0, np-1).Draw(t, "root2"))
			}
		}
		c.Roots = append(c.Roots, roots)
	}
	if rapid.IntRange(0, 2).Draw(t, "reuse") == 0 {
		c.Init = rapid.SliceOfN(rapid.SampledFrom([]int{0, 1, 1, 1, 2, 3}), ntasks, ntasks).Draw(t, "init")
	}
	if rapid.IntRange(0, 3).Draw(t, "lossheavy") == 0 {
		// loss-heavy: long runs of losses of one task, interleaved with completions and later output losses
		c.Events = rapid.SliceOfN(rapid.SampledFrom([]int{1000, 1000, 1000, 1000, 1001, 1002, 1002, 7, 22}), 0, 40).Draw(t, "events")
	} else {
		c.Events = rapid.SliceOfN(rapid.IntRange(0, 59), 0, 24).Draw(t, "events")
	}
	return c
}

func c03Sig(v string) string {
	for _, k := range []string{"S1:", "S2:", "S3:", "S4:", "S5:", "L2:", "gave up", "drain:", "panic"} {
		if len(v) > 0 && contains(v, k) {
			return "evaluator:" + k
		}
	}
	return "evaluator:other"
}

func contains(s, sub string) bool {
	for i := 0; i+len(sub) <= len(s); i++ {
		if s[i:i+len(sub)] == sub {
			return true
		}
	}
	return false
}

const c03Random = "TestVerifC03EvalRandom"

func TestVerifC03EvalRandom(t *testing.T) {
	rec := vt.New("C03", "eval-histories",
		"rapid: task graphs of 1..5 phases x 1..3 tasks (chains, diamonds, multi-root, shuffle phases with task groups, shared dependencies), optional initial task states from {INIT, OK, LOST, ERR} (reuse of earlier results), one or two evaluations (the second started by an event), and histories of up to 24 outcome events chosen among those enabled at each quiescent point (complete a handed-out task with OK / LOST / fatal error, lose an OK task, start the second evaluation); exec.Eval runs in a testing/synctest bubble under a controllable Executor; invariants S1-S5, L2, L3 (no never-run, needed task with complete dependencies is withheld) checked at every quiescent point, then everything is completed successfully and both evaluations must return; non-trivial = history has a loss or an error or a non-INIT initial state; distinct by case hash")
	docs, only := vt.Replays(c03Random)
	for _, d := range docs {
		var c c03Case
		if err := json.Unmarshal(d.Case, &c); err != nil {
			t.Fatal(err)
		}
		rec.Case(true, vt.Hash(string(d.Case)), "replay")
		if res := c03Run(t, c, nil); res.violation != "" {
			rec.Violation(c03Random, c03Sig(res.violation), res.violation, c)
			t.Errorf("replay: %v", res.violation)
		}
	}
	if only || t.Failed() {
		return
	}
	defer rec.Commit(c03Random)
	rapid.Check(t, func(rt *rapid.T) {
		c := c03Gen(rt)
		b, _ := json.Marshal(c)
		res := c03Run(t, c, nil)
		nt := res.losses > 0 || res.errs > 0 || res.nonInit
		var classes []string
		if res.losses > 0 {
			classes = append(classes, "loss")
		}
		if res.errs > 0 {
			classes = append(classes, "fatal-error")
		}
		if res.nonInit {
			classes = append(classes, "reused-initial-states")
		}
		if len(c.Roots) > 1 {
			classes = append(classes, "two-evaluations")
		}
		for _, p := range c.Phases {
			if p.Grouped {
				classes = append(classes, "task-group")
				break
			}
		}
		rec.Case(nt, vt.Hash(string(b)), classes...)
		for i := 0; i < res.excludedS5; i++ {
			rec.Exclude("evaluator:S5:two-evaluations")
		}
		if nt && rec.WantSample("history") {
			rec.Sample("history", map[string]interface{}{"case": c, "events_applied": res.events, "handouts": res.handouts})
		}
		if res.violation != "" {
			rec.Pending(c03Sig(res.violation), res.violation, c)
			rt.Fatalf("%v", res.violation)
		}
	})
}

// c03Fixed are the graphs whose event histories are enumerated completely.
var c03Fixed = []c03Case{
	// chain of three
	{Phases: []c03Phase{{N: 1}, {N: 1, Deps: [][]int{{0}}}, {N: 1, Deps: [][]int{{1}}}}, Roots: [][]int{{2}}},
	// diamond
	{Phases: []c03Phase{{N: 1}, {N: 1, Deps: [][]int{{0}}}, {N: 1, Deps: [][]int{{0}}}, {N: 1, Deps: [][]int{{1, 2}}}}, Roots: [][]int{{3}}},
	// shuffle: two grouped producers, two consumers
	{Phases: []c03Phase{{N: 2, Grouped: true}, {N: 2, Deps: [][]int{{0}, {0}}}}, Roots: [][]int{{1}}},
	// two evaluations sharing a dependency
	{Phases: []c03Phase{{N: 1}, {N: 1, Deps: [][]int{{0}}}, {N: 1, Deps: [][]int{{0}}}}, Roots: [][]int{{1}, {2}}},
	// reused result: root already OK, its dependency lost; plus a consumer
	{Phases: []c03Phase{{N: 1}, {N: 1, Deps: [][]int{{0}}}, {N: 1, Deps: [][]int{{1}}}}, Roots: [][]int{{2}}, Init: []int{2, 1, 0}},
}

const c03Enum = "TestVerifC03EvalEnum"

func TestVerifC03EvalEnum(t *testing.T) {
	depth := vt.Pick(4, 6)
	rec := vt.New("C03", "eval-enumeration",
		fmt.Sprintf("complete enumeration of all event histories of length <= %d (every enabled event at every quiescent point) on five fixed graphs (chain, diamond, shuffle with a task group, two evaluations sharing a dependency, reused result with a lost dependency); same invariants as eval-histories; non-trivial = history has a loss or an error; distinct by (graph, history)", depth))
	if _, only := vt.Replays(c03Enum); only {
		return
	}
	idx := 0
	reported := false
	for gi, g := range c03Fixed {
		var dfs func(prefix []int)
		dfs = func(prefix []int) {
			c := g
			c.Events = prefix
			idx++
			var counts []int
			// shard by (graph, first event): the root of each graph is judged by every shard's owner of index 0
			mine := true
			if len(prefix) == 0 {
				mine = vt.Shard() == 0
			} else if !vt.Mine(gi*31 + prefix[0]) {
				return
			}
			res := c03Run(t, c, &counts)
			if mine {
				nt := res.losses > 0 || res.errs > 0
				rec.Case(nt, vt.Hash(gi, fmt.Sprint(prefix)), fmt.Sprintf("graph-%d", gi))
				if nt && rec.WantSample(fmt.Sprintf("graph-%d", gi)) {
					rec.Sample(fmt.Sprintf("graph-%d", gi), map[string]interface{}{"graph": gi, "events": prefix})
				}
				if res.violation != "" && !reported {
					reported = true
					rec.Violation(c03Random, c03Sig(res.violation), res.violation, c)
					t.Errorf("graph %d history %v: %v", gi, prefix, res.violation)
				}
			}
			if len(prefix) == depth || res.violation != "" {
				return
			}
			// branching factor at the next step: run with one more (dummy) event to observe it
			probe := g
			probe.Events = append(append([]int{}, prefix...), 0)
			var pc []int
			c03Run(t, probe, &pc)
			if len(pc) <= len(prefix) {
				return
			}
			n := pc[len(prefix)]
			for s := 0; s < n; s++ {
				dfs(append(append([]int{}, prefix...), s))
			}
		}
		dfs(nil)
	}
	rec.Exhaustive = true
}


const c03Loss = "TestVerifC03EvalLossEnum"

// TestVerifC03EvalLossEnum enumerates completely all histories over the
// semantic alphabet {lose the first handed-out task, complete it, lose the
// output of the first completed task} on small graphs, deep enough for a task
// to be lost maxConsecutiveLost times with completions in between.
func TestVerifC03EvalLossEnum(t *testing.T) {
	depth := vt.Pick(8, 11)
	rec := vt.New("C03", "loss-enumeration",
		fmt.Sprintf("complete enumeration of all histories of length <= %d over the alphabet {lose the first handed-out task, complete it successfully, lose the output of the first completed task} on three graphs (single task, chain of two, producer with two consumers), one evaluation; same invariants; non-trivial = history has a loss; distinct by (graph, history)", depth))
	if _, only := vt.Replays(c03Loss); only {
		return
	}
	graphs := []c03Case{
		{Phases: []c03Phase{{N: 1}}, Roots: [][]int{{0}}},
		{Phases: []c03Phase{{N: 1}, {N: 1, Deps: [][]int{{0}}}}, Roots: [][]int{{1}}},
		{Phases: []c03Phase{{N: 1}, {N: 2, Deps: [][]int{{0}, {0}}}}, Roots: [][]int{{1}}},
	}
	reported := false
	idx := 0
	for gi, g := range graphs {
		var dfs func(prefix []int)
		dfs = func(prefix []int) {
			if len(prefix) == 2 {
				idx++
				if !vt.Mine(idx) {
					return
				}
			}
			if len(prefix) >= 2 || vt.Shard() == 0 {
				c := g
				c.Events = prefix
				res := c03Run(t, c, nil)
				rec.Case(res.losses > 0, vt.Hash("loss", gi, fmt.Sprint(prefix)), fmt.Sprintf("loss-graph-%d", gi))
				if res.losses >= 5 && rec.WantSample(fmt.Sprintf("loss-graph-%d", gi)) {
					rec.Sample(fmt.Sprintf("loss-graph-%d", gi), map[string]interface{}{"graph": gi, "events": prefix, "losses": res.losses})
				}
				if res.violation != "" {
					if !reported {
						reported = true
						rec.Violation(c03Random, c03Sig(res.violation), res.violation, c)
						t.Errorf("graph %d history %v: %v", gi, prefix, res.violation)
					}
					return
				}
			}
			if len(prefix) == depth {
				return
			}
			for _, sel := range []int{1000, 1001, 1002} {
				dfs(append(append([]int{}, prefix...), sel))
			}
		}
		dfs(nil)
	}
	rec.Exhaustive = true
}

// TestVerifC03KnownS5 executes the canonical instance of the recorded known
// finding "consecutive losses are miscounted when two evaluations share the
// task".
func TestVerifC03KnownS5(t *testing.T) {
	rec := vt.New("C03", "known-finding-probe", "one fixed history per recorded known finding (not counted as exploration)")
	if _, only := vt.Replays("none"); only || vt.Shard() != 0 {
		return
	}
	var c c03Case
	if err := json.Unmarshal([]byte(c03KnownS5Case), &c); err != nil {
		t.Fatal(err)
	}
	// The finding depends on which of two woken goroutines takes the task lock first; the bubble makes
	// quiescence exact but does not fix that order, so the history is repeated.
	for attempt := 0; attempt < 2000; attempt++ {
		res := c03RunOpt(t, c, nil, true)
		rec.Case(false, vt.Hash("probe", attempt), "probe")
		if res.violation != "" && contains(res.violation, "S5:") {
			rec.KnownStillFails("evaluator:S5:two-evaluations", fmt.Sprintf("attempt %d: %s", attempt, res.violation))
			return
		} else if res.violation != "" {
			rec.Violation(c03Random, c03Sig(res.violation), res.violation, c)
			t.Errorf("%v", res.violation)
			return
		}
	}
	rec.Note("known finding evaluator:S5:two-evaluations did not reproduce in 2000 repetitions of its canonical history (schedule-dependent)")
}

const c03KnownS5Case = `{"phases": [{"n": 3, "grouped": false, "deps": [null, null, null]}, {"n": 1, "grouped": true, "deps": [[0]]}, {"n": 2, "grouped": true, "deps": [[0], [1, 0]]}], "roots": [[2], [1, 0]], "init": null, "events": [13, 55, 24, 36, 22, 57, 46, 31, 36, 4]}`
