//go:build verif
// +build verif

package exec

// Property C14: the cluster manager never oversubscribes machines nor leaks
// capacity or requests.

import (
	"container/heap"
	"context"
	"encoding/json"
	"fmt"
	"os"
	"sort"
	"sync"
	"sync/atomic"
	"testing"
	"time"

	"github.com/grailbio/base/errors"
	"github.com/grailbio/base/retry"
	"github.com/grailbio/bigmachine"
	"github.com/grailbio/bigmachine/testsystem"
	"github.com/grailbio/bigslice/zzverif/faultsys"
	"github.com/grailbio/bigslice/zzverif/progen"
	"github.com/grailbio/bigslice/zzverif/vgen"
	"github.com/grailbio/bigslice/zzverif/vt"
	"pgregory.net/rapid"
)

// ---------------------------------------------------------------------------
// Part A: the placement decision, exhaustively.

type c14Req struct{ Priority, Procs int }
type c14Mach struct{ Cap, Load int }

type c14SchedCase struct {
	Reqs  []c14Req  `json:"reqs"`
	Machs []c14Mach `json:"machs"`
}

// c14Reference is the documented rule (comment on schedule): repeatedly take
// the highest-priority request (lower priority value first, larger demand
// first) and the machine with the most free procs; if the request fits that is
// the answer; otherwise both are set aside and the next request is tried on
// the next machine; stop when the least-loaded remaining machine has no free
// procs or either queue is exhausted.
func c14Reference(c c14SchedCase) (ok bool, req c14Req, free int) {
	reqs := append([]c14Req{}, c.Reqs...)
	sort.SliceStable(reqs, func(i, j int) bool {
		if reqs[i].Priority != reqs[j].Priority {
			return reqs[i].Priority < reqs[j].Priority
		}
		return reqs[i].Procs > reqs[j].Procs
	})
	var frees []int
	for _, m := range c.Machs {
		frees = append(frees, m.Cap-m.Load)
	}
	sort.Sort(sort.Reverse(sort.IntSlice(frees)))
	for i := 0; i < len(reqs) && i < len(frees); i++ {
		if frees[i] == 0 {
			return false, c14Req{}, 0
		}
		if reqs[i].Procs <= frees[i] {
			return true, reqs[i], frees[i]
		}
	}
	return false, c14Req{}, 0
}

func c14CheckSchedule(c c14SchedCase) (err error) {
	defer func() {
		if r := recover(); r != nil {
			_, stack := vt.PanicSig(r)
			err = fmt.Errorf("panic: %v\n%s", r, stack)
		}
	}()
	var schedQ scheduleRequestQ
	var machQ machineQ
	var reqs []*scheduleRequest
	var machs []*sliceMachine
	for _, r := range c.Reqs {
		s := &scheduleRequest{procs: r.Procs, priority: r.Priority}
		reqs = append(reqs, s)
		heap.Push(&schedQ, s)
	}
	for _, m := range c.Machs {
		sm := &sliceMachine{maxTaskProcs: m.Cap, taskProcs: m.Load}
		machs = append(machs, sm)
		heap.Push(&machQ, sm)
	}
	req, mach := schedule(&schedQ, &machQ)
	wantOK, wantReq, wantFree := c14Reference(c)
	if (req == nil) != (mach == nil) {
		return fmt.Errorf("schedule returned a request without a machine or vice versa")
	}
	if req != nil {
		free := mach.maxTaskProcs - mach.taskProcs
		if req.procs > free {
			return fmt.Errorf("schedule placed a request for %d procs on a machine with %d free procs (capacity %d, load %d)", req.procs, free, mach.maxTaskProcs, mach.taskProcs)
		}
		if !wantOK {
			return fmt.Errorf("schedule placed request (priority %d, procs %d) on a machine with %d free; the documented rule finds no placement", req.priority, req.procs, free)
		}
		if req.priority != wantReq.Priority || req.procs != wantReq.Procs || free != wantFree {
			return fmt.Errorf("schedule placed request (priority %d, procs %d) on a machine with %d free; the documented rule places (priority %d, procs %d) on a machine with %d free", req.priority, req.procs, free, wantReq.Priority, wantReq.Procs, wantFree)
		}
	} else if wantOK {
		return fmt.Errorf("schedule found no placement; the documented rule places (priority %d, procs %d) on a machine with %d free", wantReq.Priority, wantReq.Procs, wantFree)
	}
	// both queues keep their contents and their heap/index invariants
	if len(schedQ) != len(reqs) || len(machQ) != len(machs) {
		return fmt.Errorf("schedule changed the queue sizes: %d/%d requests, %d/%d machines", len(schedQ), len(reqs), len(machQ), len(machs))
	}
	seenR := map[*scheduleRequest]bool{}
	for i, s := range schedQ {
		if s.index != i {
			return fmt.Errorf("request queue: element %d has index %d", i, s.index)
		}
		seenR[s] = true
		if p := (i - 1) / 2; i > 0 && schedQ.Less(i, p) {
			return fmt.Errorf("request queue violates the heap property at %d", i)
		}
	}
	for _, s := range reqs {
		if !seenR[s] {
			return fmt.Errorf("a request was dropped from the queue")
		}
	}
	seenM := map[*sliceMachine]bool{}
	for i, m := range machQ {
		if m.index != i {
			return fmt.Errorf("machine queue: element %d has index %d", i, m.index)
		}
		seenM[m] = true
		if p := (i - 1) / 2; i > 0 && machQ.Less(i, p) {
			return fmt.Errorf("machine queue violates the heap property at %d", i)
		}
	}
	for _, m := range machs {
		if !seenM[m] {
			return fmt.Errorf("a machine was dropped from the queue")
		}
	}
	return nil
}

const c14Sched = "TestVerifC14Schedule"

func TestVerifC14Schedule(t *testing.T) {
	maxReq, maxMach := vt.Pick(3, 4), vt.Pick(2, 3)
	rec := vt.New("C14", "schedule",
		fmt.Sprintf("complete enumeration of all queues of <= %d requests (priority 0..2, procs 1..4) x <= %d machines (capacity 1..4, load 0..capacity) for schedule(); oracle: the returned pair fits, equals the placement of an independent implementation of the documented rule (by priority, procs and free procs), both heaps keep their contents, heap property and indices; non-trivial = some request does not fit the machine it is first compared with (a reservation happens); distinct by configuration", maxReq, maxMach))
	docs, only := vt.Replays(c14Sched)
	for _, d := range docs {
		var c c14SchedCase
		if err := json.Unmarshal(d.Case, &c); err != nil {
			t.Fatal(err)
		}
		rec.Case(true, vt.Hash(string(d.Case)), "replay")
		if err := c14CheckSchedule(c); err != nil {
			rec.Violation(c14Sched, "schedule", err.Error(), c)
			t.Errorf("replay: %v", err)
		}
	}
	if only || t.Failed() {
		return
	}
	var reqOpts []c14Req
	for p := 0; p <= 2; p++ {
		for n := 1; n <= 4; n++ {
			reqOpts = append(reqOpts, c14Req{p, n})
		}
	}
	var machOpts []c14Mach
	for c := 1; c <= 4; c++ {
		for l := 0; l <= c; l++ {
			machOpts = append(machOpts, c14Mach{c, l})
		}
	}
	var reqLists [][]c14Req
	var genR func(p []c14Req)
	genR = func(p []c14Req) {
		reqLists = append(reqLists, append([]c14Req{}, p...))
		if len(p) == maxReq {
			return
		}
		for _, o := range reqOpts {
			genR(append(p, o))
		}
	}
	genR(nil)
	var machLists [][]c14Mach
	var genM func(p []c14Mach)
	genM = func(p []c14Mach) {
		machLists = append(machLists, append([]c14Mach{}, p...))
		if len(p) == maxMach {
			return
		}
		for _, o := range machOpts {
			genM(append(p, o))
		}
	}
	genM(nil)
	reported := false
	for ri, rl := range reqLists {
		if !vt.Mine(ri) {
			continue
		}
		for mi, ml := range machLists {
			c := c14SchedCase{rl, ml}
			// non-trivial: the first comparison does not fit
			nt := false
			if ok, _, _ := c14Reference(c14SchedCase{rl, ml}); len(rl) > 0 && len(ml) > 0 {
				best := 0
				for _, m := range ml {
					if m.Cap-m.Load > best {
						best = m.Cap - m.Load
					}
				}
				first := rl[0]
				for _, r := range rl {
					if r.Priority < first.Priority || r.Priority == first.Priority && r.Procs > first.Procs {
						first = r
					}
				}
				nt = first.Procs > best && best > 0
				_ = ok
			}
			rec.Case(nt, vt.Hash(ri, mi), "enumerated")
			if nt && rec.WantSample("reservation") {
				rec.Sample("reservation", c)
			}
			if err := c14CheckSchedule(c); err != nil && !reported {
				reported = true
				rec.Violation(c14Sched, "schedule", err.Error(), c)
				t.Errorf("%+v: %v", c, err)
			}
		}
	}
	rec.Exhaustive = true
}

// ---------------------------------------------------------------------------
// Part B: the live manager on the test system.

type c14Op struct {
	K string `json:"k"` // offer cancel done-ok done-remote done-net kill
	A int    `json:"a"` // priority / selector
	B int    `json:"b"` // procs / selector
}

type c14LiveCase struct {
	Machineprocs int     `json:"machineprocs"`
	MaxLoad      float64 `json:"maxload"`
	Maxp         int     `json:"maxp"`
	Ops          []c14Op `json:"ops"`
}

type c14Grant struct {
	m     *sliceMachine
	procs int
}

func c14RunLive(c c14LiveCase) (err error, stats map[string]int) {
	stats = map[string]int{}
	defer func() {
		if r := recover(); r != nil {
			_, stack := vt.PanicSig(r)
			err = fmt.Errorf("panic: %v\n%s", r, stack)
		}
	}()
	oldProb := ProbationTimeout
	ProbationTimeout = time.Hour
	defer func() { ProbationTimeout = oldProb }()
	system := testsystem.New()
	system.Machineprocs = c.Machineprocs
	system.KeepalivePeriod = 50 * time.Millisecond
	system.KeepaliveTimeout = 150 * time.Millisecond
	system.KeepaliveRpcTimeout = 50 * time.Millisecond
	b := bigmachine.Start(system)
	ctx, cancel := context.WithCancel(context.Background())
	mgr := newMachineManager(b, nil, nil, c.Maxp, c.MaxLoad, &worker{MachineCombiners: false})
	var wg sync.WaitGroup
	wg.Add(1)
	go func() { mgr.Do(ctx); wg.Done() }()
	defer func() {
		cancel()
		go b.Shutdown() // after machine kills this can block for minutes: do not wait for it
		done := make(chan struct{})
		go func() { wg.Wait(); close(done) }()
		select {
		case <-done:
		case <-time.After(5 * time.Second):
		}
	}()
	capacity := mgr.machprocs
	type pending struct {
		procs   int
		machc   <-chan *sliceMachine
		cancel  func()
		granted bool
	}
	var (
		mu        sync.Mutex
		ledger    = map[*sliceMachine]int{}
		probation = map[*sliceMachine]bool{}
		stopped   = map[*sliceMachine]time.Time{}
		grants    []c14Grant
		offers    []*pending
		violation string
		curOp     int
		history   []string
		probationSince = map[*sliceMachine]int{}
	)
	fail := func(format string, args ...interface{}) {
		if violation == "" {
			violation = fmt.Sprintf(format, args...)
		}
	}
	// demand is the number of procs asked for and not yet returned or cancelled (what the manager calls
	// need: Offer, cancel and Done are synchronous hand-overs to the manager goroutine); peak is its
	// maximum so far. "No more machines are started than demand and the parallelism limit justify":
	// the manager never shuts machines down, so at any time the machines alive in the system (booting
	// ones included) provide fewer than min(peak, maxp) + one machine's worth of procs.
	demand, peak := 0, 0
	addDemand := func(d int) {
		demand += d
		if demand > peak {
			peak = demand
		}
	}
	checkMachines := func(when string) {
		lim := peak
		if mgr.maxp < lim {
			lim = mgr.maxp
		}
		bound := (lim + capacity - 1) / capacity
		// machines that are not stopped, whether killed by the harness or lost on their own (a machine
		// that misses its keepalives on a busy host is replaced, rightly)
		n := 0
		for _, bm := range b.Machines() {
			if bm.State() != bigmachine.Stopped {
				n++
			}
		}
		if n > bound {
			fail("%s: %d machines are alive; the demand so far peaked at %d procs, the parallelism limit is %d procs and a machine provides %d: at most %d machines are justified (history: %v)", when, n, peak, mgr.maxp, capacity, bound, history)
		}
	}
	// roundTrip returns after the manager goroutine has processed everything sent to it before.
	roundTrip := func() {
		addDemand(1)
		_, cancel := mgr.Offer(1000000, 1)
		cancel()
		addDemand(-1)
	}
	receive := func(p *pending, wait time.Duration) bool {
		select {
		case m := <-p.machc:
			mu.Lock()
			defer mu.Unlock()
			p.granted = true
			stats["grants"]++
			ledger[m] += p.procs
			if ledger[m] > m.maxTaskProcs {
				fail("machine %s was granted %d procs in total, its task capacity is %d", m.Addr, ledger[m], m.maxTaskProcs)
			}
			if m.maxTaskProcs != capacity {
				fail("machine %s has task capacity %d, the max-load share of %d procs is %d", m.Addr, m.maxTaskProcs, c.Machineprocs, capacity)
			}
			if p.procs == capacity && ledger[m] != p.procs {
				fail("a request for the whole machine (%d procs) was placed on %s, which already runs %d procs", p.procs, m.Addr, ledger[m]-p.procs)
			}
			if probation[m] {
				fail("op %d: machine %s is on probation (since op %d) and received new work (history: %v)", curOp, m.Addr, probationSince[m], history)
			}
			if at, ok := stopped[m]; ok && time.Since(at) > time.Second {
				fail("machine %s stopped %v ago and received new work", m.Addr, time.Since(at))
			}
			grants = append(grants, c14Grant{m, p.procs})
			history = append(history, fmt.Sprintf("op%d:grant %d on %s", curOp, p.procs, m.Addr[len(m.Addr)-5:]))
			return true
		case <-time.After(wait):
			return false
		}
	}
	for oi, op := range c.Ops {
		if violation != "" {
			break
		}
		curOp = oi
		switch op.K {
		case "offer":
			procs := 1 + op.B%capacity
			if op.B%5 == 4 {
				procs = capacity // the whole machine, as an exclusive task asks for
			}
			addDemand(procs)
			machc, cancel := mgr.Offer(op.A%3, procs)
			p := &pending{procs: procs, machc: machc, cancel: cancel}
			offers = append(offers, p)
			stats["offers"]++
			mu.Lock()
			wait := 30 * time.Millisecond
			if len(ledger) == 0 {
				wait = 500 * time.Millisecond // the first machine has to boot
			}
			mu.Unlock()
			receive(p, wait)
		case "cancel":
			var open []*pending
			for _, p := range offers {
				if !p.granted && p.cancel != nil {
					open = append(open, p)
				}
			}
			if len(open) == 0 {
				continue
			}
			p := open[op.A%len(open)]
			// a grant may be in flight: try to take it first, then cancel
			if !receive(p, time.Millisecond) {
				done := make(chan struct{})
				go func() { p.cancel(); close(done) }()
				select {
				case <-done:
				case m := <-p.machc:
					// granted concurrently with the cancellation: return it
					<-done
					m.Done(p.procs, nil)
				}
				addDemand(-p.procs)
				p.cancel = nil
				stats["cancels"]++
			}
		case "done-ok", "done-remote", "done-net":
			mu.Lock()
			if len(grants) == 0 {
				mu.Unlock()
				continue
			}
			i := op.A % len(grants)
			g := grants[i]
			grants = append(grants[:i], grants[i+1:]...)
			ledger[g.m] -= g.procs
			mu.Unlock()
			var derr error
			switch op.K {
			case "done-remote":
				derr = errors.E(errors.Remote, "remote application error")
			case "done-net":
				derr = errors.E(errors.Net, "connection reset")
			}
			g.m.Done(g.procs, derr)
			addDemand(-g.procs)
			history = append(history, fmt.Sprintf("op%d:%s %d on %s", oi, op.K, g.procs, g.m.Addr[len(g.m.Addr)-5:]))
			roundTrip()
			mu.Lock()
			_, dead := stopped[g.m]
			switch {
			case derr != nil && !errors.Is(errors.Remote, derr) && !dead:
				probation[g.m] = true
				probationSince[g.m] = oi
			case derr == nil:
				// a successful completion ends the probation - also of a machine that was killed a moment
				// ago and whose stop the manager has not noticed yet (that case is judged by the
				// "stopped for more than 1 s" rule)
				delete(probation, g.m)
			}
			mu.Unlock()
			stats[op.K]++
		case "kill":
			mu.Lock()
			var ms []*sliceMachine
			for m := range ledger {
				if _, dead := stopped[m]; !dead {
					ms = append(ms, m)
				}
			}
			mu.Unlock()
			if len(ms) == 0 {
				continue
			}
			sort.Slice(ms, func(i, j int) bool { return ms[i].Addr < ms[j].Addr })
			m := ms[op.A%len(ms)]
			if system.Kill(m.Machine) {
				select {
				case <-m.Wait(bigmachine.Stopped):
				case <-time.After(10 * time.Second):
					return fmt.Errorf("harness: killed machine never reported as stopped"), stats
				}
				mu.Lock()
				stopped[m] = time.Now()
				mu.Unlock()
				stats["kills"]++
				history = append(history, fmt.Sprintf("op%d:kill %s", oi, m.Addr[len(m.Addr)-5:]))
				roundTrip()
				time.Sleep(20 * time.Millisecond) // let the manager order the replacements
			}
		}
		checkMachines(fmt.Sprintf("after op %d (%s)", oi, op.K))
		// drain grants for older offers that became satisfiable
		for _, p := range offers {
			if !p.granted && p.cancel != nil {
				receive(p, time.Millisecond)
			}
		}
	}
	if violation != "" {
		return fmt.Errorf("%s", violation), stats
	}
	// conservation: cancel what is pending, return what is held, then every healthy machine must accept a request for all of its procs
	for _, p := range offers {
		if !p.granted && p.cancel != nil {
			if !receive(p, 5*time.Millisecond) {
				done := make(chan struct{})
				go func() { p.cancel(); close(done) }()
				select {
				case <-done:
				case m := <-p.machc:
					<-done
					m.Done(p.procs, nil)
				}
			}
		}
	}
	mu.Lock()
	held := grants
	grants = nil
	mu.Unlock()
	for _, g := range held {
		g.m.Done(g.procs, nil)
		mu.Lock()
		ledger[g.m] -= g.procs
		if _, dead := stopped[g.m]; !dead {
			delete(probation, g.m)
		}
		mu.Unlock()
	}
	roundTrip()
	checkMachines("at the end")
	if violation != "" {
		return fmt.Errorf("%s", violation), stats
	}
	var healthy []*sliceMachine
	for m := range ledger {
		if _, dead := stopped[m]; !dead && !probation[m] {
			healthy = append(healthy, m)
		}
	}
	for _, m := range healthy {
		if m.taskProcs != 0 {
			return fmt.Errorf("after every granted proc was returned, the manager still accounts %d procs to machine %s: capacity leaked", m.taskProcs, m.Addr), stats
		}
	}
	stats["machines"] = len(ledger)
	return nil, stats
}

const c14Live = "TestVerifC14LiveManager"

func TestVerifC14LiveManager(t *testing.T) {
	rec := vt.New("C14", "live-manager",
		"rapid: sequences of 1..25 events (offer with priority 0..2 and 1..capacity procs incl. whole-machine requests, cancel, done with nil / remote error / transport error, machine kill) against a live machineManager on the bigmachine test system for machine procs 1..4, max-load {0.3,0.5,0.95} and parallelism limits 1..8; the harness keeps its own ledger of granted minus returned procs per machine; invariants: ledger <= task capacity at every grant, capacity = max-load share of the machine's procs (at least 1), a whole-machine request only on an idle machine, no grant to a machine on probation (ProbationTimeout = 1h) or stopped for more than 1 s; at the end everything is returned and the manager must account zero procs to every healthy machine; non-trivial = at least one failure event (done with error, kill, cancel); distinct by case hash")
	docs, only := vt.Replays(c14Live)
	for _, d := range docs {
		var c c14LiveCase
		if err := json.Unmarshal(d.Case, &c); err != nil {
			t.Fatal(err)
		}
		rec.Case(true, vt.Hash(string(d.Case)), "replay")
		if err, _ := c14RunLive(c); err != nil {
			rec.Violation(c14Live, "live-manager", err.Error(), c)
			t.Errorf("replay: %v", err)
		}
	}
	if only || t.Failed() {
		return
	}
	defer rec.Commit(c14Live)
	kinds := []string{"offer", "offer", "offer", "offer", "cancel", "done-ok", "done-ok", "done-remote", "done-net", "kill"}
	rapid.Check(t, func(rt *rapid.T) {
		c := c14LiveCase{
			Machineprocs: rapid.IntRange(1, 4).Draw(rt, "machineprocs"),
			MaxLoad:      rapid.SampledFrom([]float64{0.3, 0.5, 0.95}).Draw(rt, "maxload"),
			Maxp:         rapid.IntRange(1, 8).Draw(rt, "maxp"),
		}
		n := rapid.IntRange(1, 25).Draw(rt, "nops")
		for i := 0; i < n; i++ {
			c.Ops = append(c.Ops, c14Op{K: rapid.SampledFrom(kinds).Draw(rt, "k"), A: rapid.IntRange(0, 20).Draw(rt, "a"), B: rapid.IntRange(0, 20).Draw(rt, "b")})
		}
		b, _ := json.Marshal(c)
		err, stats := c14RunLive(c)
		nt := stats["done-remote"]+stats["done-net"]+stats["kills"]+stats["cancels"] > 0
		var classes []string
		for _, k := range []string{"done-remote", "done-net", "kills", "cancels"} {
			if stats[k] > 0 {
				classes = append(classes, k)
			}
		}
		rec.Case(nt, vt.Hash(string(b)), classes...)
		if nt && rec.WantSample("history") {
			rec.Sample("history", map[string]interface{}{"case": c, "stats": stats})
		}
		if err != nil {
			rec.Pending("live-manager", err.Error(), c)
			rt.Fatalf("%v", err)
		}
	})
}

// ---------------------------------------------------------------------------
// Part C: every exit path of (*bigmachineExecutor).Run returns its procs.

type c14ExitCase struct {
	Path    string `json:"path"`
	Trigger int    `json:"trigger"` // ordinal of the RPC at which the machine is killed
	Phase   string `json:"phase"`
	MC      bool   `json:"machine_combiners"`
	Procs   int    `json:"procs,omitempty"` // pragma of the tasks: 0 none, n > 0 Procs(n) (also more than a machine has), -1 Exclusive
}

func c14ExitProgram(c c14ExitCase) *progen.Spec {
	cols := []progen.Col{progen.TInt, progen.TInt}
	src := progen.Node{Op: "readerfunc", Cols: cols, NShard: 3, ShardRows: make([][][]int, 3)}
	for s := 0; s < 3; s++ {
		for i := 0; i < 40; i++ {
			src.ShardRows[s] = append(src.ShardRows[s], []int{i % 7, (s + i) % 23})
		}
	}
	spec := &progen.Spec{}
	switch c.Path {
	case "run-fatal":
		src.Fn = &progen.Fn{Fail: &progen.Fail{Mode: "error", At: 5, Persistent: true}}
	case "compile-fatal":
		spec.PanicOnBuild = 2
	}
	red := progen.Node{Op: "reduce", In: []int{0}, Fn: &progen.Fn{}}
	switch {
	case c.Procs > 0:
		src.Procs, red.Procs = c.Procs, c.Procs
	case c.Procs < 0:
		src.Exclusive, red.Exclusive = true, true
	}
	spec.Nodes = append(spec.Nodes, src, red)
	if err := progen.Annotate(spec); err != nil {
		panic(err)
	}
	return spec
}

var c14RunIDs int64 = 7000000

var c14LastRunErr string

func c14RunExit(c c14ExitCase) (err error, fired bool) {
	defer func() {
		if r := recover(); r != nil {
			_, stack := vt.PanicSig(r)
			err = fmt.Errorf("panic: %v\n%s", r, stack)
		}
	}()
	oldProb := ProbationTimeout
	ProbationTimeout = 300 * time.Millisecond
	oldRetry := VerifSetRetryPolicy(retry.MaxRetries(retry.Backoff(5*time.Millisecond, 50*time.Millisecond, 2), 5))
	defer func() {
		ProbationTimeout = oldProb
		VerifSetRetryPolicy(oldRetry)
	}()
	sys := faultsys.New(2)
	sys.KeepalivePeriod, sys.KeepaliveTimeout, sys.KeepaliveRpcTimeout = 200*time.Millisecond, 2*time.Second, time.Second
	sys.Relax()
	opts := []Option{Bigmachine(sys), Parallelism(4), MaxLoad(1.0)}
	if c.MC {
		opts = append(opts, MachineCombiners)
	}
	sess := Start(opts...)
	spec := c14ExitProgram(c)
	spec.RunID = int(atomic.AddInt64(&c14RunIDs, 1))
	defer progen.DropEnv(spec.RunID)
	var plan []faultsys.Trigger
	switch c.Path {
	case "compile-lost":
		plan = []faultsys.Trigger{{Method: "Worker.Compile", N: c.Trigger, Phase: c.Phase, Victim: "target"}}
	case "run-lost":
		plan = []faultsys.Trigger{{Method: "Worker.Run", N: c.Trigger, Phase: c.Phase, Victim: "target"}}
	case "commit-failure":
		plan = []faultsys.Trigger{{Method: "Worker.CommitCombiner", N: c.Trigger, Phase: c.Phase, Victim: "target"}}
	}
	sys.SetPlan(plan)
	ctx := context.Background()
	done := make(chan error, 1)
	go func() {
		_, e := sess.Run(ctx, progen.Prog0, *spec)
		done <- e
	}()
	var runErr error
	select {
	case runErr = <-done:
	case <-time.After(90 * time.Second):
		return fmt.Errorf("path %s: Run did not return within 90s", c.Path), sys.Fired() > 0
	}
	sys.Disable()
	fired = sys.Fired() > 0 || len(plan) == 0
	c14LastRunErr = firstLineOf(runErr)
	if os.Getenv("VERIF_DEBUG") != "" {
		fmt.Fprintf(os.Stderr, "DEBUG %+v fired=%d runErr=%v\nlog=%+v\n", c, sys.Fired(), runErr, sys.Log)
	}
	switch c.Path {
	case "success":
		if runErr != nil {
			return fmt.Errorf("failure-free run failed: %v", runErr), fired
		}
	case "run-fatal":
		// (compile-fatal panics in one construction only: if that machine is also considered lost,
		// e.g. after a missed keepalive on a busy host, the run legitimately succeeds elsewhere)
		if runErr == nil {
			return fmt.Errorf("path %s: Run succeeded", c.Path), fired
		}
	}
	// Every proc handed out must have been returned: with the parallelism limit reached no
	// further machine may be started, so a request for a whole machine must be grantable
	// for every machine of the cluster at the same time.
	mgr := sess.executor.(*bigmachineExecutor).manager(0)
	type got struct{ m *sliceMachine }
	res := make(chan *sliceMachine, 2)
	var cancels []func()
	for i := 0; i < 2; i++ {
		machc, cancel := mgr.Offer(0, mgr.machprocs)
		cancels = append(cancels, cancel)
		go func() {
			select {
			case m := <-machc:
				res <- m
			case <-time.After(20 * time.Second):
				res <- nil
			}
		}()
	}
	var ms []*sliceMachine
	for i := 0; i < 2; i++ {
		ms = append(ms, <-res)
	}
	for i, m := range ms {
		if m == nil {
			return fmt.Errorf("exit path %q (run error: %v): after the run, whole-machine requests for both machines of the cluster cannot be granted within 20s: procs handed out to a task were not returned", c.Path, firstLineOf(runErr)), fired
		}
		_ = i
	}
	if ms[0] == ms[1] {
		return fmt.Errorf("two whole-machine requests were granted on the same machine"), fired
	}
	// both machines are now handed out in full: no further proc may be granted (no further machine can
	// be started). A grant here means the manager's account of a machine is below zero, i.e. a task
	// returned more procs than it was granted.
	extrac, extraCancel := mgr.Offer(0, 1)
	select {
	case m := <-extrac:
		if m == ms[0] || m == ms[1] {
			return fmt.Errorf("exit path %q (run error: %v): machine %s is handed out in full (%d procs), yet one more proc was granted on it: a task returned more procs than it was granted", c.Path, firstLineOf(runErr), m.Addr, mgr.machprocs), fired
		}
		m.Done(1, nil) // a replacement machine that came up in the meantime
	case <-time.After(500 * time.Millisecond):
		extraCancel()
	}
	for _, m := range ms {
		m.Done(mgr.machprocs, nil)
	}
	return nil, fired
}

func firstLineOf(err error) string {
	if err == nil {
		return "<nil>"
	}
	s := err.Error()
	for i := 0; i < len(s); i++ {
		if s[i] == '\n' {
			return s[:i]
		}
	}
	return s
}

const c14Exit = "TestVerifC14ExitPaths"

func TestVerifC14ExitPaths(t *testing.T) {
	rec := vt.New("C14", "executor-exit-paths",
		"fault enumeration over the exit paths of (*bigmachineExecutor).Run in real sessions on the test system (2 machines x 2 procs, parallelism limit reached): success; fatal user error; Func panicking when the worker compiles the invocation; machine killed at the k-th Worker.Compile / Worker.Run / Worker.CommitCombiner call (k = 0..3, before the call and after its reply), with and without machine combiners, and the same for tasks carrying Procs(2) (the whole machine), Procs(5) (more than a machine has) and Exclusive pragmas; oracle: after Run returns, whole-machine requests for every machine of the cluster must be grantable at the same time (no further machine can be started) and while they are outstanding not a single further proc may be granted on those machines, i.e. every task returned exactly the procs it was granted; non-trivial = the fault fired; distinct by scenario")
	docs, only := vt.Replays(c14Exit)
	for _, d := range docs {
		var c c14ExitCase
		if err := json.Unmarshal(d.Case, &c); err != nil {
			t.Fatal(err)
		}
		rec.Case(true, vt.Hash(string(d.Case)), "replay")
		if err, _ := c14RunExit(c); err != nil {
			rec.Violation(c14Exit, "exit-path:"+c.Path, err.Error(), c)
			t.Errorf("replay: %v", err)
		}
	}
	if only || t.Failed() {
		return
	}
	var cases []c14ExitCase
	for _, mc := range []bool{false, true} {
		cases = append(cases, c14ExitCase{Path: "success", MC: mc}, c14ExitCase{Path: "run-fatal", MC: mc}, c14ExitCase{Path: "compile-fatal", MC: mc})
		for _, path := range []string{"compile-lost", "run-lost", "commit-failure"} {
			if path == "commit-failure" && !mc {
				continue
			}
			for k := 0; k < vt.Pick(2, 4); k++ {
				for _, phase := range []string{"before", "after"} {
					cases = append(cases, c14ExitCase{Path: path, Trigger: k, Phase: phase, MC: mc})
				}
			}
		}
	}
	// task pragmas: the whole machine, more procs than a machine has (clamped), exclusive
	for _, procs := range []int{2, 5, -1} {
		cases = append(cases, c14ExitCase{Path: "success", Procs: procs}, c14ExitCase{Path: "run-fatal", Procs: procs},
			c14ExitCase{Path: "run-lost", Trigger: 0, Phase: "after", Procs: procs}, c14ExitCase{Path: "success", Procs: procs, MC: true})
	}
	seen := map[string]bool{}
	for i, c := range cases {
		if !vt.Mine(i) {
			continue
		}
		err, fired := c14RunExit(c)
		rec.Case(fired, vt.Hash(fmt.Sprint(c)), "path:"+c.Path)
		if fired && rec.WantSample(c.Path) {
			rec.Sample(c.Path, map[string]interface{}{"case": c, "run_error": c14LastRunErr})
		}
		rec.Count("outcome:"+c.Path+":"+map[bool]string{true: "run-succeeded", false: "run-failed"}[c14LastRunErr == "<nil>"], 1)
		if err != nil && !seen[c.Path] {
			seen[c.Path] = true
			rec.Violation(c14Exit, "exit-path:"+c.Path, err.Error(), c)
			t.Errorf("%+v: %v", c, err)
		}
	}
	rec.Exhaustive = true
}

// ---------------------------------------------------------------------------
// Part D: the local executor's limiter.

type c14LocalCase struct {
	// FailFirst: before the measured programs, runs that fail (a reduce combiner panicking in the task
	// that produces and in the task that gathers the shuffle) are executed in the same session; the
	// procs their tasks held must have been returned.
	FailFirst   bool   `json:"fail_first,omitempty"`
	Parallelism int    `json:"parallelism"`
	Programs    []struct {
		Shards    int  `json:"shards"`
		Exclusive bool `json:"exclusive"`
		// Reduce: the program is a Reduce whose combiner is gauged (every key once per producer shard, so
		// that the combining happens while the consumer tasks gather their shuffle input)
		Reduce bool `json:"reduce,omitempty"`
	} `json:"programs"`
}

func c14RunLocal(c c14LocalCase) (err error, g progen.Gauge) {
	defer func() {
		if r := recover(); r != nil {
			_, stack := vt.PanicSig(r)
			err = fmt.Errorf("panic: %v\n%s", r, stack)
		}
	}()
	progen.TheGauge.Reset()
	sess := Start(Local, Parallelism(c.Parallelism))
	defer sess.Shutdown()
	if c.FailFirst {
		for _, cross := range []bool{false, true} {
			src := progen.Node{Op: "readerfunc", Cols: []progen.Col{progen.TInt, progen.TInt}, NShard: 3, ShardRows: make([][][]int, 3)}
			for s := 0; s < 3; s++ {
				for r := 0; r < 6; r++ {
					k := r % 2 // keys repeated inside the shard: the producing task combines
					if cross {
						k = r // every key once per shard: only the gathering task combines
					}
					src.ShardRows[s] = append(src.ShardRows[s], []int{k, r})
				}
			}
			spec := &progen.Spec{Nodes: []progen.Node{src, {Op: "reduce", In: []int{0}, Fn: &progen.Fn{Fail: &progen.Fail{Mode: "panic", At: 0, Persistent: true}}}}}
			if e := progen.Annotate(spec); e != nil {
				return e, g
			}
			spec.RunID = int(atomic.AddInt64(&c14RunIDs, 1))
			failed := make(chan error, 1)
			go func() {
				_, e := sess.Run(context.Background(), progen.Prog0, *spec)
				failed <- e
			}()
			select {
			case e := <-failed:
				if e == nil {
					return fmt.Errorf("harness: the failing run succeeded"), g
				}
			case <-time.After(60 * time.Second):
				return fmt.Errorf("a run whose reduce combiner panics did not return within 60s"), g
			}
			progen.DropEnv(spec.RunID)
		}
	}
	var wg sync.WaitGroup
	errs := make([]error, len(c.Programs))
	for i, p := range c.Programs {
		src := progen.Node{Op: "readerfunc", Cols: []progen.Col{progen.TInt}, NShard: p.Shards, ShardRows: make([][][]int, p.Shards),
			Exclusive: p.Exclusive, Fn: &progen.Fn{Gauge: true, SleepUs: 300}, Script: []vgen.Chunk{{N: 2}, {N: 2}}}
		for s := 0; s < p.Shards; s++ {
			for r := 0; r < 5; r++ {
				src.ShardRows[s] = append(src.ShardRows[s], []int{r})
			}
		}
		spec := &progen.Spec{Nodes: []progen.Node{src, {Op: "map", In: []int{0}, Fn: &progen.Fn{Exprs: []progen.Expr{{K: "col", I: 0}}}}}}
		if p.Reduce {
			rsrc := progen.Node{Op: "readerfunc", Cols: []progen.Col{progen.TInt, progen.TInt}, NShard: p.Shards, ShardRows: make([][][]int, p.Shards)}
			for s := 0; s < p.Shards; s++ {
				for r := 0; r < 24; r++ {
					rsrc.ShardRows[s] = append(rsrc.ShardRows[s], []int{r, s})
				}
			}
			spec = &progen.Spec{Nodes: []progen.Node{rsrc, {Op: "reduce", In: []int{0}, Fn: &progen.Fn{Gauge: true, SleepUs: 150}}}}
		}
		if e := progen.Annotate(spec); e != nil {
			return e, g
		}
		spec.RunID = int(atomic.AddInt64(&c14RunIDs, 1))
		wg.Add(1)
		go func(i int, spec *progen.Spec) {
			defer wg.Done()
			_, errs[i] = sess.Run(context.Background(), progen.Prog0, *spec)
			progen.DropEnv(spec.RunID)
		}(i, spec)
	}
	done := make(chan struct{})
	go func() { wg.Wait(); close(done) }()
	select {
	case <-done:
	case <-time.After(60 * time.Second):
		if c.FailFirst {
			return fmt.Errorf("after failed runs in the same session, local runs (parallelism %d, %d programs) did not finish within 60s: the failed tasks did not return their procs", c.Parallelism, len(c.Programs)), progen.TheGauge.Snapshot()
		}
		return fmt.Errorf("concurrent local runs did not finish within 60s"), progen.TheGauge.Snapshot()
	}
	for _, e := range errs {
		if e != nil {
			return fmt.Errorf("run failed: %v", e), progen.TheGauge.Snapshot()
		}
	}
	g = progen.TheGauge.Snapshot()
	if len(g.Violations) > 0 {
		return fmt.Errorf("local executor with parallelism %d: %s", c.Parallelism, g.Violations[0]), g
	}
	if g.Max > c.Parallelism {
		return fmt.Errorf("local executor with parallelism %d ran %d tasks at once", c.Parallelism, g.Max), g
	}
	if g.Active != 0 {
		return fmt.Errorf("harness: gauge did not return to zero (%d)", g.Active), g
	}
	return nil, g
}

const c14Local = "TestVerifC14LocalLimiter"

func TestVerifC14LocalLimiter(t *testing.T) {
	rec := vt.New("C14", "local-limiter",
		"rapid: 1..4 programs (ReaderFunc sources of 1..8 shards, some with the Exclusive pragma, each read taking ~0.3 ms) run concurrently in one local session with parallelism 1..6, in a quarter of the cases after two runs in the same session that fail (reduce combiner panicking in the producing task and in the task gathering the shuffle), whose procs must have been returned; the generated reader functions maintain a gauge of concurrently active tasks; a third of the non-exclusive programs are Reduces whose combiner calls are gauged as well (a task that is combining its shuffle input is a running task); oracle: the gauge never exceeds the configured parallelism, no task starts while an exclusive task is active and an exclusive task starts only when nothing else runs; non-trivial = more tasks than the parallelism or an exclusive program present; distinct by case hash")
	docs, only := vt.Replays(c14Local)
	for _, d := range docs {
		var c c14LocalCase
		if err := json.Unmarshal(d.Case, &c); err != nil {
			t.Fatal(err)
		}
		rec.Case(true, vt.Hash(string(d.Case)), "replay")
		if err, _ := c14RunLocal(c); err != nil {
			rec.Violation(c14Local, "local-limiter", err.Error(), c)
			t.Errorf("replay: %v", err)
		}
	}
	if only || t.Failed() {
		return
	}
	defer rec.Commit(c14Local)
	rapid.Check(t, func(rt *rapid.T) {
		var c c14LocalCase
		c.Parallelism = rapid.IntRange(1, 6).Draw(rt, "p")
		c.FailFirst = rapid.IntRange(0, 3).Draw(rt, "failfirst") == 0
		np := rapid.IntRange(1, 4).Draw(rt, "nprog")
		tasks, excl := 0, false
		for i := 0; i < np; i++ {
			var p struct {
				Shards    int  `json:"shards"`
				Exclusive bool `json:"exclusive"`
				Reduce    bool `json:"reduce,omitempty"`
			}
			p.Shards = rapid.IntRange(1, 8).Draw(rt, "shards")
			p.Exclusive = rapid.IntRange(0, 2).Draw(rt, "excl") == 0
			if !p.Exclusive && p.Shards >= 2 {
				p.Reduce = rapid.IntRange(0, 2).Draw(rt, "reduce") == 0
			}
			c.Programs = append(c.Programs, p)
			tasks += p.Shards
			excl = excl || p.Exclusive
		}
		b, _ := json.Marshal(c)
		err, g := c14RunLocal(c)
		nt := tasks > c.Parallelism || excl
		var classes []string
		if excl {
			classes = append(classes, "exclusive")
		}
		if g.Max == c.Parallelism {
			classes = append(classes, "limit-reached")
		}
		rec.Case(nt, vt.Hash(string(b)), classes...)
		if nt && rec.WantSample("local") {
			rec.Sample("local", map[string]interface{}{"case": c, "max_active": g.Max, "task_starts": g.Starts})
		}
		if err != nil {
			rec.Pending("local-limiter", err.Error(), c)
			rt.Fatalf("%v", err)
		}
	})
}
