//go:build verif
// +build verif

package exec

import "github.com/grailbio/base/retry"

// VerifSetRetryPolicy replaces the back-off policy of remote reads/calls (only
// the waiting times matter to the checks) and returns the old one.
// Verification hook; compiled only with the build tag "verif".
func VerifSetRetryPolicy(p retry.Policy) retry.Policy {
	old := retryPolicy
	retryPolicy = p
	return old
}
