//go:build verif
// +build verif

package exec

// Property C15: task stores are commit-atomic; remote reads resume without
// gaps or repeats.

import (
	"bytes"
	"context"
	"encoding/json"
	"fmt"
	"io"
	"io/ioutil"
	"os"
	"strings"
	"testing"
	"time"

	"github.com/grailbio/base/retry"
	"github.com/grailbio/bigslice/sliceio"
	"github.com/grailbio/bigslice/zzverif/vfault"
	"github.com/grailbio/bigslice/zzverif/vgen"
	"github.com/grailbio/bigslice/zzverif/vt"
	"pgregory.net/rapid"
)

// ---------------------------------------------------------------------------
// Part A: stores

type c15Op struct {
	K    string `json:"k"` // create write commit wdiscard open stat discard
	E    int    `json:"e"` // entry selector (task, partition)
	H    int    `json:"h"` // writer handle selector
	Data []byte `json:"data,omitempty"`
	N    int    `json:"n"` // commit: record count; open: offset selector
}

type c15Case struct {
	Store string        `json:"store"` // memory | file
	Ops   []c15Op       `json:"ops"`
	Fault *vfault.Fault `json:"fault,omitempty"`
	// Names selects how the four entries are named (c15Name): names that differ in one component only,
	// by a little or by a thousand, must still denote four separate entries
	Names int `json:"names,omitempty"`
}

type c15Entry struct {
	state int // 0 absent, 1 present, 2 maybe (absent, or present with exactly these bytes)
	data  []byte
	count int64
}

type c15Writer struct {
	entry  int
	w      writeCommitter
	buf    []byte
	closed bool
	broken bool // a write failed: contents undefined, must not be committed successfully... (commit may still be attempted)
}

const c15Entries = 4

const c15NameSchemes = 6

func c15Name(e, scheme int) (TaskName, int) {
	switch scheme % c15NameSchemes {
	case 1: // partitions beyond a thousand (a task partitioned more than 1000 ways)
		return TaskName{InvIndex: 1, Op: "op", Shard: e / 2, NumShard: 2}, []int{3, 1003}[e%2]
	case 2: // shards s and s+1000 of a slice of thousands of shards
		return TaskName{InvIndex: 1, Op: "op", Shard: []int{7, 1007}[e/2], NumShard: 2500}, []int{0, 2000}[e%2]
	case 3: // same operator and shard in different invocations (the compiler puts the invocation index into the
		// operator name as well, which is what the file store relies on); shard counts that differ by a thousand
		return TaskName{InvIndex: uint64([]int{1, 11}[e/2]), Op: []string{"inv1_op", "inv11_op"}[e/2], Shard: 1, NumShard: []int{12, 1012}[e%2]}, 0
	case 4: // operator names that are prefixes of each other, partitions 9 / 10 / 99 / 100
		return TaskName{InvIndex: 2, Op: []string{"inv2_map", "inv2_map1"}[e/2], Shard: 0, NumShard: 1}, []int{9, 10, 99, 100}[e]
	case 5: // three- and four-digit shard numbers around the padding width
		return TaskName{InvIndex: 3, Op: "op", Shard: []int{99, 100, 999, 1000}[e], NumShard: 1001}, 1
	}
	return TaskName{InvIndex: 1, Op: fmt.Sprintf("op%d", e/2), Shard: e / 2, NumShard: 2}, e % 2
}

// c15LastCounts holds the per-kind counts of underlying file operations of the last fileStore run.
var c15LastCounts map[string]int

// c15Run executes the operation sequence against a fresh store and the model.
func c15Run(c c15Case, dir string) (err error) {
	defer func() {
		if r := recover(); r != nil {
			_, stack := vt.PanicSig(r)
			err = fmt.Errorf("panic: %v\n%s", r, stack)
		}
	}()
	ctx := context.Background()
	var store Store
	faulty := false
	switch c.Store {
	case "memory":
		store = newMemoryStore()
	case "file":
		store = &fileStore{Prefix: vfault.Path(dir) + "/"}
		if c.Fault != nil {
			vfault.Set([]vfault.Fault{*c.Fault})
			faulty = true
		} else {
			vfault.Set(nil)
		}
		defer func() {
			c15LastCounts = vfault.Counts()
			vfault.Set(nil)
		}()
	}
	var entries [c15Entries]c15Entry
	var writers []*c15Writer
	creating := map[int]bool{}
	for step, op := range c.Ops {
		e := op.E % c15Entries
		task, part := c15Name(e, c.Names)
		where := fmt.Sprintf("step %d (%s entry %d)", step, op.K, e)
		// an error is excusable only if the injected fault hit an underlying file operation of this very step
		firedBefore := vfault.Fired()
		hit := func() bool { return faulty && vfault.Fired() > firedBefore }
		switch op.K {
		case "create":
			if entries[e].state != 0 || creating[e] {
				continue // re-creating an existing or in-progress entry is unspecified
			}
			w, err := store.Create(ctx, task, part)
			if err != nil {
				if !hit() {
					return fmt.Errorf("%s: Create failed: %v", where, err)
				}
				continue
			}
			creating[e] = true
			writers = append(writers, &c15Writer{entry: e, w: w})
		case "write", "commit", "wdiscard":
			var open []*c15Writer
			for _, w := range writers {
				if !w.closed {
					open = append(open, w)
				}
			}
			if len(open) == 0 {
				continue
			}
			w := open[op.H%len(open)]
			if w.broken && op.K == "commit" {
				// a caller whose write failed does not commit (the worker discards the writer)
				op.K = "wdiscard"
			}
			switch op.K {
			case "write":
				n, err := w.w.Write(op.Data)
				if err != nil {
					if !hit() {
						return fmt.Errorf("%s: Write failed: %v", where, err)
					}
					w.broken = true
					continue
				}
				if n != len(op.Data) {
					return fmt.Errorf("%s: Write returned %d for %d bytes without an error", where, n, len(op.Data))
				}
				w.buf = append(w.buf, op.Data...)
			case "commit":
				w.closed = true
				delete(creating, w.entry)
				err := w.w.Commit(ctx, int64(op.N))
				en := &entries[w.entry]
				if err != nil {
					if !hit() {
						return fmt.Errorf("%s: Commit failed: %v", where, err)
					}
					// the entry is absent, or complete
					en.state, en.data, en.count = 2, append([]byte{}, w.buf...), int64(op.N)
					if w.broken {
						en.state = 3 // must be absent: its contents were never written completely
					}
					continue
				}
				if w.broken {
					return fmt.Errorf("%s: Commit returned nil although an earlier write of this entry failed: a commit that could not persist the data must report an error", where)
				}
				if hit() {
					return fmt.Errorf("%s: Commit returned nil although an underlying file operation of the commit failed: a commit that could not persist the data must report an error", where)
				}
				en.state, en.data, en.count = 1, append([]byte{}, w.buf...), int64(op.N)
			case "wdiscard":
				w.closed = true
				delete(creating, w.entry)
				w.w.Discard(ctx)
			}
		case "open":
			en := entries[e]
			off := int64(0)
			if len(en.data) > 0 {
				off = int64(op.N % (len(en.data) + 1))
			}
			rc, err := store.Open(ctx, task, part, off)
			if err != nil {
				if en.state == 1 && !hit() {
					return fmt.Errorf("%s: Open of a committed entry failed: %v", where, err)
				}
				continue
			}
			got, rerr := ioutil.ReadAll(rc)
			rc.Close()
			if en.state == 0 || en.state == 3 {
				return fmt.Errorf("%s: Open succeeded (%d bytes readable) for an entry that was never successfully committed: data are visible before commit", where, len(got))
			}
			want := en.data[off:]
			if rerr != nil {
				if !hit() {
					return fmt.Errorf("%s: reading a committed entry failed: %v", where, rerr)
				}
				if !bytes.HasPrefix(want, got) {
					return fmt.Errorf("%s: bytes delivered before a read error are not a prefix of the committed bytes", where)
				}
				continue
			}
			if !bytes.Equal(got, want) {
				return fmt.Errorf("%s: Open at offset %d returned %d bytes %q, committed bytes from that offset are %d bytes %q", where, off, len(got), c15Short(got), len(want), c15Short(want))
			}
			if en.state == 2 {
				entries[e].state = 1 // observed complete
			}
		case "stat":
			en := entries[e]
			info, err := store.Stat(ctx, task, part)
			if err != nil {
				if en.state == 1 && !hit() {
					return fmt.Errorf("%s: Stat of a committed entry failed: %v", where, err)
				}
				continue
			}
			if en.state == 0 || en.state == 3 {
				return fmt.Errorf("%s: Stat succeeded (%+v) for an entry that was never successfully committed", where, info)
			}
			if info.Size != int64(len(en.data)) || info.Records != en.count {
				return fmt.Errorf("%s: Stat reports size %d records %d, committed were %d bytes and %d records", where, info.Size, info.Records, len(en.data), en.count)
			}
		case "discard":
			if creating[e] {
				continue
			}
			err := store.Discard(ctx, task, part)
			if err != nil {
				if entries[e].state == 1 && !hit() {
					return fmt.Errorf("%s: Discard of a committed entry failed: %v", where, err)
				}
				if entries[e].state == 1 {
					entries[e].state = 2
				}
				continue
			}
			entries[e] = c15Entry{}
		}
	}
	// final sweep: every entry that is committed according to the model is still exactly there (size,
	// record count, bytes), whatever was created, committed or discarded next to it in the meantime
	if !faulty {
		for e := range entries {
			en := entries[e]
			if en.state != 1 {
				continue
			}
			task, part := c15Name(e, c.Names)
			info, err := store.Stat(ctx, task, part)
			if err != nil {
				return fmt.Errorf("final sweep: Stat of committed entry %d failed: %v", e, err)
			}
			if info.Size != int64(len(en.data)) || info.Records != en.count {
				return fmt.Errorf("final sweep: entry %d: Stat reports size %d records %d, committed were %d bytes and %d records", e, info.Size, info.Records, len(en.data), en.count)
			}
			rc, err := store.Open(ctx, task, part, 0)
			if err != nil {
				return fmt.Errorf("final sweep: Open of committed entry %d failed: %v", e, err)
			}
			got, rerr := ioutil.ReadAll(rc)
			rc.Close()
			if rerr != nil || !bytes.Equal(got, en.data) {
				return fmt.Errorf("final sweep: entry %d reads %d bytes %q (error %v), committed were %d bytes %q", e, len(got), c15Short(got), rerr, len(en.data), c15Short(en.data))
			}
		}
	}
	return nil
}

func c15Short(b []byte) string {
	if len(b) > 24 {
		return string(b[:24]) + "..."
	}
	return string(b)
}

func c15GenOps(t *rapid.T) []c15Op {
	kinds := []string{"create", "create", "write", "write", "commit", "commit", "wdiscard", "open", "open", "stat", "discard"}
	n := rapid.IntRange(1, 20).Draw(t, "nops")
	ops := make([]c15Op, n)
	for i := range ops {
		ops[i] = c15Op{K: rapid.SampledFrom(kinds).Draw(t, "k"), E: rapid.IntRange(0, c15Entries-1).Draw(t, "e"), H: rapid.IntRange(0, 3).Draw(t, "h"), N: rapid.IntRange(1, 40).Draw(t, "n")}
		if ops[i].K == "write" {
			ops[i].Data = rapid.SliceOfN(rapid.ByteRange('a', 'z'), 0, 30).Draw(t, "data")
		}
	}
	return ops
}

const c15Stores = "TestVerifC15Stores"

func TestVerifC15Stores(t *testing.T) {
	rec := vt.New("C15", "stores",
		"rapid: sequences of 1..20 operations (create, write, commit, discard-writer, open at an offset, stat, discard) over 4 entries on memoryStore and on fileStore through the fault-injecting vfault:// file implementation, compared with a map model (nothing visible before a successful commit; exact bytes from any offset, size and record count afterwards, re-checked for every committed entry in a final sweep); for fileStore each sequence is first run fault-free to learn its trace of underlying file operations and then re-run once for EVERY (kind, k) with the k-th operation of that kind failing (also with short writes/reads): failed operations must report errors, a failed commit leaves the entry absent or complete, Commit must not return nil after a failed write; evaluations = executed sequences incl. fault variants; non-trivial = a fault fired or an entry was committed and read back; distinct by (sequence, fault)")
	dir := os.Getenv("VERIF_SCRATCH")
	if dir == "" {
		dir = os.TempDir()
	}
	n := 0
	fresh := func() string {
		n++
		d := fmt.Sprintf("%s/c15-%d", dir, n)
		c15Remove(d)
		os.MkdirAll(d, 0777)
		return d
	}
	docs, only := vt.Replays(c15Stores)
	for _, d := range docs {
		var c c15Case
		if err := json.Unmarshal(d.Case, &c); err != nil {
			t.Fatal(err)
		}
		rec.Case(true, vt.Hash(string(d.Case)), "replay")
		if err := c15Run(c, fresh()); err != nil {
			rec.Violation(c15Stores, c15SigOf(err), err.Error(), c)
			t.Errorf("replay: %v", err)
		}
	}
	if only || t.Failed() {
		return
	}
	defer rec.Commit(c15Stores)
	rapid.Check(t, func(rt *rapid.T) {
		ops := c15GenOps(rt)
		ob, _ := json.Marshal(ops)
		h := vt.Hash(string(ob))
		committed := false
		for _, op := range ops {
			if op.K == "commit" {
				committed = true
			}
		}
		names := rapid.IntRange(0, c15NameSchemes-1).Draw(rt, "names")
		for _, st := range []string{"memory", "file"} {
			c := c15Case{Store: st, Ops: ops, Names: names}
			d := fresh()
			c15LastCounts = nil
			err := c15Run(c, d)
			counts := c15LastCounts
			c15Remove(d)
			rec.Case(committed, vt.Hash(h, st, names), "store:"+st, fmt.Sprintf("names:%d", names))
			if committed && rec.WantSample(st) {
				rec.Sample(st, c)
			}
			if err != nil {
				rec.Pending(c15SigOf(err), err.Error(), c)
				rt.Fatalf("%v", err)
			}
			if st != "file" {
				continue
			}
			// fault enumeration over the fault-free trace
			for _, kind := range vfault.Kinds {
				for k := 0; k < counts[kind]; k++ {
					for _, short := range []bool{false, true} {
						if short && kind != "write" && kind != "read" {
							continue
						}
						f := &vfault.Fault{Kind: kind, N: k, Short: short}
						fc := c15Case{Store: "file", Ops: ops, Fault: f, Names: names}
						d := fresh()
						err := c15Run(fc, d)
						c15Remove(d)
						rec.Case(true, vt.Hash(h, kind, k, short), "fault:"+kind)
						if rec.WantSample("fault:" + kind) {
							rec.Sample("fault:"+kind, fc)
						}
						if err != nil {
							rec.Pending(c15SigOf(err), err.Error(), fc)
							rt.Fatalf("fault %+v: %v", *f, err)
						}
					}
				}
			}
		}
	})
}

// c15Remove removes a store directory. The file store joins its prefix and the entry's path
// with file.Join, which turns "vfault:///abs/dir" into "vfault://abs/dir": the files live under the
// same path taken relative to the working directory, which has to be removed as well (a thorough run
// left millions of files behind otherwise).
func c15Remove(d string) {
	os.RemoveAll(d)
	if rel := strings.TrimPrefix(d, "/"); rel != d && rel != "" {
		os.RemoveAll(rel)
	}
}

func c15SigOf(err error) string {
	m := err.Error()
	switch {
	case strings.Contains(m, "panic"):
		return "store:panic"
	case strings.Contains(m, "Commit returned nil"):
		return "store:commit-swallows-write-error"
	case strings.Contains(m, "never successfully committed"):
		return "store:visible-before-commit"
	case strings.Contains(m, "Open at offset"):
		return "store:wrong-bytes"
	case strings.Contains(m, "Stat reports"):
		return "store:wrong-stat"
	case strings.Contains(m, "not a prefix"):
		return "store:wrong-bytes-before-error"
	}
	return "store:other"
}

// ---------------------------------------------------------------------------
// Part B: retryReader over a scripted opener

// script actions: 'O' the next OpenAt fails; 'z' the next Read fails with 0
// bytes; 'p' the next Read delivers some bytes AND fails; 's' the next Read is
// short (1 byte, no error); '.' the next Open/Read behaves normally; 'Z' from
// here on every Read fails with 0 bytes while every OpenAt succeeds (a
// failure that does not heal); 'Q' from here on every OpenAt fails.
type c15Opener struct {
	data     []byte
	script   []byte
	pos      int // script position
	opens    []int64
	fails    int // consecutive failures seen by the reader (reset by a successful read)
	maxFails int
	limit    int // > 0: never produce more than this many consecutive failures
	persist  byte
}

func (o *c15Opener) next(read bool) byte {
	if len(o.opens) > 5000 {
		select {} // a reader that never gives up: park it (the watchdog of the case reports it)
	}
	a := byte('.')
	if o.persist == 0 && o.pos < len(o.script) && (o.script[o.pos] == 'Z' || o.script[o.pos] == 'Q') {
		o.persist = o.script[o.pos]
	}
	if o.persist != 0 {
		a = '.'
		if o.persist == 'Z' && read {
			a = 'z'
		}
		if o.persist == 'Q' && !read {
			a = 'O'
		}
	} else if o.pos < len(o.script) {
		a = o.script[o.pos]
		o.pos++
	}
	if a == 'O' || a == 'z' || a == 'p' {
		if o.limit > 0 && o.fails >= o.limit {
			return '.'
		}
		o.fails++
		if o.fails > o.maxFails {
			o.maxFails = o.fails
		}
	}
	return a
}

func (o *c15Opener) success() { o.fails = 0 }

type c15ScriptReader struct {
	o   *c15Opener
	off int64
}

func (o *c15Opener) OpenAt(ctx context.Context, offset int64) (io.ReadCloser, error) {
	o.opens = append(o.opens, offset)
	if a := o.next(false); a == 'O' {
		return nil, fmt.Errorf("scripted open failure")
	}
	if offset < 0 || offset > int64(len(o.data)) {
		return nil, fmt.Errorf("open at %d beyond the stream of %d bytes", offset, len(o.data))
	}
	return &c15ScriptReader{o: o, off: offset}, nil
}

func (r *c15ScriptReader) Close() error { return nil }

func (r *c15ScriptReader) Read(p []byte) (int, error) {
	if len(p) == 0 {
		return 0, nil
	}
	left := r.o.data[r.off:]
	a := r.o.next(true)
	switch a {
	case 'z':
		return 0, fmt.Errorf("scripted read failure")
	case 'p':
		n := copy(p, left)
		if n > 1 {
			n = n / 2
		}
		r.off += int64(n)
		return n, fmt.Errorf("scripted read failure after %d bytes", n)
	case 's':
		r.o.success()
		if len(left) == 0 {
			return 0, io.EOF
		}
		p[0] = left[0]
		r.off++
		return 1, nil
	}
	r.o.success()
	if len(left) == 0 {
		return 0, io.EOF
	}
	n := copy(p, left)
	r.off += int64(n)
	return n, nil
}

type c15RetryCase struct {
	Data   string `json:"data"`
	Script string `json:"script"`
	Buf    int    `json:"buf"`
}

func c15RunRetry(c c15RetryCase) (err error, retried bool) {
	type res struct {
		err     error
		retried bool
	}
	done := make(chan res, 1)
	go func() {
		e, r := c15RunRetry1(c)
		done <- res{e, r}
	}()
	select {
	case r := <-done:
		return r.err, r.retried
	case <-time.After(20 * time.Second):
		return fmt.Errorf("the reader neither delivered the stream nor failed: it is still reopening after more than 5000 attempts (microsecond back-off), i.e. its retry budget is never exhausted"), true
	}
}

func c15RunRetry1(c c15RetryCase) (err error, retried bool) {
	defer func() {
		if r := recover(); r != nil {
			_, stack := vt.PanicSig(r)
			err = fmt.Errorf("panic: %v\n%s", r, stack)
		}
	}()
	o := &c15Opener{data: []byte(c.Data), script: []byte(c.Script)}
	r := newRetryReader(context.Background(), o)
	var got []byte
	buf := make([]byte, c.Buf)
	for i := 0; i < 10*len(c.Data)+10*len(c.Script)+20; i++ {
		n, e := r.Read(buf)
		if n < 0 || n > len(buf) {
			return fmt.Errorf("Read returned n=%d for a buffer of %d", n, len(buf)), o.maxFails > 0
		}
		got = append(got, buf[:n]...)
		if !bytes.HasPrefix([]byte(c.Data), got) {
			return fmt.Errorf("after %d reads the delivered bytes %q are not a prefix of the committed stream %q (gap or repeat); opens at offsets %v", i+1, got, c.Data, o.opens), o.maxFails > 0
		}
		if e == io.EOF {
			if string(got) != c.Data {
				return fmt.Errorf("EOF after %q, committed stream is %q; opens at offsets %v", got, c.Data, o.opens), o.maxFails > 0
			}
			return nil, o.maxFails > 0
		}
		if e != nil {
			// giving up is only allowed once the retry budget (retry.MaxRetries(..., 5)) is exhausted; the
			// exact count is a property of the retry package, so only "fewer than 5 consecutive failures" is asserted
			if o.maxFails < 5 {
				return fmt.Errorf("read failed with %q although no more than %d consecutive transient failures occurred (budget: 5)", e, o.maxFails), o.maxFails > 0
			}
			return nil, true
		}
	}
	return fmt.Errorf("reader neither finished nor failed"), o.maxFails > 0
}

const c15Retry = "TestVerifC15RetryReader"

func TestVerifC15RetryReader(t *testing.T) {
	old := VerifSetRetryPolicy(retry.MaxRetries(retry.Backoff(time.Microsecond, 10*time.Microsecond, 2), 5))
	defer VerifSetRetryPolicy(old)
	maxLen, maxScript := vt.Pick(4, 6), vt.Pick(5, 6)
	rec := vt.New("C15", "retry-reader",
		fmt.Sprintf("complete enumeration: streams of length 0..%d x buffer sizes 1..3 x all failure scripts of length <= %d over {open fails, read fails with 0 bytes, read delivers bytes and fails, short read, normal}, optionally ending in a failure that does not heal (every further read fails while opens succeed / every further open fails), applied to retryReader over a scripted opener; plus rapid for longer streams/scripts through openerAtReader + row decoding; oracle: the delivered bytes are at every moment a prefix of the committed stream and equal it at EOF (nothing skipped, nothing repeated), an error only after more than 5 consecutive failures, and a failure that does not heal must end in an error (the reader may not retry forever); non-trivial = script contains a failure; distinct by (stream length, buffer, script)", maxLen, maxScript))
	docs, only := vt.Replays(c15Retry)
	for _, d := range docs {
		var c c15RetryCase
		if err := json.Unmarshal(d.Case, &c); err != nil {
			t.Fatal(err)
		}
		rec.Case(true, vt.Hash(string(d.Case)), "replay")
		if err, _ := c15RunRetry(c); err != nil {
			rec.Violation(c15Retry, "retry-reader", err.Error(), c)
			t.Errorf("replay: %v", err)
		}
	}
	if only || t.Failed() {
		return
	}
	alphabet := "Ozps.ZQ"
	idx := 0
	reported := false
	var scripts []string
	var gen func(p string)
	gen = func(p string) {
		scripts = append(scripts, p)
		if len(p) == maxScript || strings.HasSuffix(p, "Z") || strings.HasSuffix(p, "Q") {
			return
		}
		for _, a := range alphabet {
			gen(p + string(a))
		}
	}
	gen("")
	for l := 0; l <= maxLen; l++ {
		data := "abcdefgh"[:l]
		for buf := 1; buf <= 3; buf++ {
			for _, sc := range scripts {
				idx++
				if !vt.Mine(idx) || reported {
					continue
				}
				c := c15RetryCase{data, sc, buf}
				err, nt := c15RunRetry(c)
				rec.Case(nt, vt.Hash(l, buf, sc), fmt.Sprintf("len:%d", l))
				if nt && rec.WantSample("enumerated") {
					rec.Sample("enumerated", c)
				}
				if err != nil && !reported {
					reported = true
					rec.Violation(c15Retry, "retry-reader", err.Error(), c)
					t.Errorf("%+v: %v", c, err)
				}
			}
		}
	}
	rec.Exhaustive = true
	if t.Failed() {
		return
	}
	// rows through openerAtReader
	rec2 := vt.New("C15", "opener-at-reader", "rapid: an encoded row stream (1..3 batches) served by a scripted opener with random failure scripts (<= 5 consecutive failures) and read through openerAtReader; oracle: rows equal the written rows; non-trivial = script contains a failure")
	defer rec2.Commit(c15Retry)
	rapid.Check(t, func(rt *rapid.T) {
		s := vgen.GenSchema(rt, 3, false, true)
		var rows [][]int
		var buf bytes.Buffer
		enc := sliceio.NewEncodingWriter(&buf)
		var want []vgen.Row
		for b, nb := 0, rapid.IntRange(1, 3).Draw(rt, "nbatch"); b < nb; b++ {
			rows = vgen.GenRows(rt, len(s.Cols), rapid.IntRange(0, 40).Draw(rt, "rows"), 24)
			if err := enc.Write(context.Background(), s.MakeFrame(rows)); err != nil {
				rt.Fatalf("encode: %v", err)
			}
			want = append(want, s.Rows(rows)...)
		}
		script := rapid.StringOfN(rapid.SampledFrom([]rune("Ozps....")), 0, 40, -1).Draw(rt, "script")
		o := &c15Opener{data: buf.Bytes(), script: []byte(script), limit: 3}
		r := &openerAtReader{OpenerAt: o}
		res, contract := s.Drain(context.Background(), r, vgen.GenDestSizes(rt, 50), 20*len(want)+200)
		nt := strings.ContainsAny(script, "Ozp")
		rec2.Case(nt, vt.Hash(script, buf.Len()), "rows")
		if nt && rec2.WantSample("rows") {
			rec2.Sample("rows", map[string]interface{}{"columns": s.Names(), "rows": len(want), "script": script})
		}
		if contract != nil {
			rec2.Pending("opener-at-reader", contract.Error(), map[string]string{"script": script})
			rt.Fatalf("%v", contract)
		}
		if res.Err != nil {
			rec2.Pending("opener-at-reader", res.Err.Error(), map[string]string{"script": script})
			rt.Fatalf("read failed within the retry budget: %v (script %q)", res.Err, script)
		}
		if err := vgen.SameSeq(res.Rows, want); err != nil {
			rec2.Pending("opener-at-reader", err.Error(), map[string]string{"script": script})
			rt.Fatalf("%v (script %q)", err, script)
		}
	})
}
