//go:build verif
// +build verif

package exec

// Property C08: an invocation compiles to the same well-formed task graph
// everywhere.

import (
	"regexp"
	"bytes"
	"encoding/gob"
	"encoding/json"
	"fmt"
	"io/ioutil"
	"os"
	osexec "os/exec"
	"path/filepath"
	"sort"
	"strings"
	"testing"

	"github.com/grailbio/bigslice"
	"github.com/grailbio/bigslice/zzverif/progen"
	"github.com/grailbio/bigslice/zzverif/vt"
	"pgregory.net/rapid"
)

// c08Case is a program, optionally over Result arguments produced by other programs.
type c08Case struct {
	Args             []progen.Spec `json:"args"`
	Spec             progen.Spec   `json:"spec"`
	MachineCombiners bool          `json:"machine_combiners"`
}

func c08AllTasks(roots []*Task) []*Task {
	all := map[*Task]bool{}
	for _, r := range roots {
		r.all(all)
	}
	var out []*Task
	for t := range all {
		out = append(out, t)
	}
	sort.Slice(out, func(i, j int) bool {
		a, b := out[i].Name, out[j].Name
		if a.InvIndex != b.InvIndex {
			return a.InvIndex < b.InvIndex
		}
		if a.Op != b.Op {
			return a.Op < b.Op
		}
		return a.Shard < b.Shard
	})
	return out
}

// c08Signature renders everything the property lists: names, shard and
// partition counts, combine keys, dependency wiring, groups, pragmas.
func c08Signature(roots []*Task) string {
	var b strings.Builder
	fmt.Fprintf(&b, "roots:")
	for _, r := range roots {
		fmt.Fprintf(&b, " %s", r.Name)
	}
	b.WriteString("\n")
	for _, t := range c08AllTasks(roots) {
		fmt.Fprintf(&b, "%s inv=%d np=%d ck=%q comb=%v procs=%d excl=%v cols=%d", t.Name, t.Name.InvIndex, t.NumPartition, t.CombineKey, !t.Combiner.IsNil(), pragmaProcs(t), pragmaExcl(t), t.NumOut())
		if len(t.Group) > 0 {
			fmt.Fprintf(&b, " group=[")
			for _, g := range t.Group {
				fmt.Fprintf(&b, "%s,", g.Name)
			}
			b.WriteString("]")
		}
		for _, d := range t.Deps {
			fmt.Fprintf(&b, " dep(%s p=%d n=%d expand=%v ck=%q)", d.Head.Name, d.Partition, d.NumTask(), d.Expand, d.CombineKey)
		}
		b.WriteString("\n")
	}
	return b.String()
}

func pragmaProcs(t *Task) int {
	if t.Pragma == nil {
		return 0
	}
	return t.Pragma.Procs()
}

func pragmaExcl(t *Task) bool {
	if t.Pragma == nil {
		return false
	}
	return t.Pragma.Exclusive()
}

const c08InvBase = 900000

// c08Compile compiles the case; variant selects how: 0 invoke+compile, 1 the
// same invocation invoked and compiled again, 2 after a gob round trip of the
// invocation (as a worker receives it).
func c08Compile(c c08Case, variant int) (roots []*Task, results []*Result, err error) {
	defer func() {
		if r := recover(); r != nil {
			_, stack := vt.PanicSig(r)
			err = fmt.Errorf("panic: %v\n%s", r, stack)
		}
	}()
	var args []interface{}
	for i := range c.Args {
		spec := c.Args[i]
		inv := makeExecInvocation(progen.Prog0.Invocation("verif", spec))
		inv.Index = uint64(c08InvBase + i)
		slice := inv.Invoke()
		tasks, e := compile(inv, slice, c.MachineCombiners)
		if e != nil {
			return nil, nil, fmt.Errorf("compiling argument %d: %v", i, e)
		}
		res := &Result{Slice: slice, invIndex: inv.Index, tasks: tasks}
		results = append(results, res)
		args = append(args, res)
	}
	all := append([]interface{}{c.Spec}, args...)
	inv := makeExecInvocation(progen.ProgFunc(len(args)).Invocation("verif", all...))
	inv.Index = c08InvBase + 100
	switch variant {
	case 2:
		// transport: Result arguments travel as invocation references and are substituted on arrival
		send := inv
		send.Args = append([]interface{}{}, inv.Args...)
		for i, a := range send.Args {
			if r, ok := a.(*Result); ok {
				send.Args[i] = invocationRef{r.invIndex}
			}
		}
		var buf bytes.Buffer
		if e := gob.NewEncoder(&buf).Encode(send); e != nil {
			return nil, nil, fmt.Errorf("gob-encoding the invocation: %v", e)
		}
		var got execInvocation
		if e := gob.NewDecoder(&buf).Decode(&got); e != nil {
			return nil, nil, fmt.Errorf("gob-decoding the invocation: %v", e)
		}
		for i, a := range got.Args {
			if ref, ok := a.(invocationRef); ok {
				got.Args[i] = results[int(ref.Index)-c08InvBase]
			}
		}
		inv = got
	}
	slice := inv.Invoke()
	roots, err = compile(inv, slice, c.MachineCombiners)
	if err != nil {
		return nil, results, fmt.Errorf("compile: %v", err)
	}
	return roots, results, nil
}

// c08WellFormed checks the structural clauses of the property on a compiled graph.
// re-shuffle tasks inserted for a reused Result are named <op>_shuffle, with a counter when the same
// Result is re-shuffled more than once in an invocation
var c08ShuffleName = regexp.MustCompile(`_shuffle[0-9]*$`)

func c08WellFormed(c c08Case, roots []*Task, results []*Result) error {
	rootNode := c.Spec.Nodes[c.Spec.Root()]
	if len(roots) != rootNode.Shards {
		return fmt.Errorf("%d root tasks for a result of %d shards", len(roots), rootNode.Shards)
	}
	argTask := map[*Task]bool{}
	for _, r := range results {
		for _, t := range c08AllTasks(r.tasks) {
			argTask[t] = true
		}
	}
	all := c08AllTasks(roots)
	names := map[string]*Task{}
	byOp := map[string][]*Task{}
	for _, t := range all {
		key := fmt.Sprintf("%d/%s", t.Name.InvIndex, t.Name)
		if o, ok := names[key]; ok && o != t {
			return fmt.Errorf("two distinct tasks are named %s", t.Name)
		}
		names[key] = t
		op := fmt.Sprintf("%d/%s", t.Name.InvIndex, t.Name.Op)
		byOp[op] = append(byOp[op], t)
	}
	// a combiner key names the machine-local combine buffers of ONE shuffle: the tasks that write into it
	// are the shards of one producer stage, and it is read through dependencies on that stage only
	keyOp := map[string]string{}
	for _, t := range all {
		if t.CombineKey != "" {
			op := fmt.Sprintf("%d/%s", t.Name.InvIndex, t.Name.Op)
			if o, ok := keyOp[t.CombineKey]; ok && o != op {
				return fmt.Errorf("combiner key %q is shared by the distinct stages %s and %s", t.CombineKey, o, op)
			}
			keyOp[t.CombineKey] = op
		}
	}
	for _, t := range all {
		for _, d := range t.Deps {
			if d.CombineKey == "" {
				continue
			}
			op := fmt.Sprintf("%d/%s", d.Head.Name.InvIndex, d.Head.Name.Op)
			if o, ok := keyOp[d.CombineKey]; !ok || o != op {
				return fmt.Errorf("task %s reads combiner key %q through a dependency on stage %s, but the key is written by stage %q", t.Name, d.CombineKey, op, o)
			}
		}
	}
	for i, r := range roots {
		if r.Name.Shard != i || r.Name.NumShard != len(roots) {
			return fmt.Errorf("root %d is named %s", i, r.Name)
		}
	}
	for op, ts := range byOp {
		n := ts[0].Name.NumShard
		seen := make([]bool, n)
		for _, t := range ts {
			if t.Name.NumShard != n || t.Name.Shard < 0 || t.Name.Shard >= n || seen[t.Name.Shard] {
				return fmt.Errorf("stage %s: shard numbering is inconsistent (%s)", op, t.Name)
			}
			seen[t.Name.Shard] = true
		}
		// a stage reached through a shuffle has all its shards in the graph
		if len(ts[0].Group) > 0 && len(ts) != n {
			return fmt.Errorf("stage %s has %d of %d tasks", op, len(ts), n)
		}
	}
	// acyclic
	state := map[*Task]int{}
	var visit func(t *Task) error
	visit = func(t *Task) error {
		switch state[t] {
		case 1:
			return fmt.Errorf("cycle through %s", t.Name)
		case 2:
			return nil
		}
		state[t] = 1
		for _, d := range t.Deps {
			for k := 0; k < d.NumTask(); k++ {
				if err := visit(d.Task(k)); err != nil {
					return err
				}
			}
		}
		state[t] = 2
		return nil
	}
	for _, r := range roots {
		if err := visit(r); err != nil {
			return err
		}
	}
	for _, t := range all {
		if argTask[t] {
			continue // belongs to a reused result (checked when that was compiled)
		}
		// pipelining rules, from the slices the task evaluates (top first)
		for j, s := range t.Slices {
			if _, ok := bigslice.Unwrap(s).(*Result); ok {
				return fmt.Errorf("task %s pipelines a reused result", t.Name)
			}
			if j > 0 {
				if p, ok := s.(bigslice.Pragma); ok && p.Materialize() {
					return fmt.Errorf("task %s pipelines across the Materialize pragma of %s", t.Name, s.Name().Op)
				}
			}
			if j < len(t.Slices)-1 {
				if s.NumDep() != 1 {
					return fmt.Errorf("task %s pipelines through %s, which has %d dependencies", t.Name, s.Name().Op, s.NumDep())
				}
				if s.Dep(0).Shuffle {
					return fmt.Errorf("task %s pipelines across the shuffle of %s", t.Name, s.Name().Op)
				}
			}
		}
		if len(t.Slices) == 0 {
			// a re-shuffle task inserted for a reused result
			if len(t.Deps) != 1 || !argTask[t.Deps[0].Head] {
				return fmt.Errorf("task %s evaluates no slice and does not read a reused result", t.Name)
			}
		}
		// wiring of the task's dependencies
		var last bigslice.Slice
		if n := len(t.Slices); n > 0 {
			last = t.Slices[n-1]
		}
		reshuffleOfResult := len(t.Deps) == 1 && argTask[t.Deps[0].Head] && c08ShuffleName.MatchString(t.Name.Op)
		for i, d := range t.Deps {
			shuffle := false
			if last != nil && !reshuffleOfResult && i < last.NumDep() {
				shuffle = last.Dep(i).Shuffle
			}
			if shuffle {
				if d.Partition != t.Name.Shard {
					return fmt.Errorf("task %s (shard %d) reads partition %d of %s", t.Name, t.Name.Shard, d.Partition, d.Head.Name)
				}
				n := d.NumTask()
				if n != d.Head.Name.NumShard {
					return fmt.Errorf("task %s depends on %d of the %d shards of %s", t.Name, n, d.Head.Name.NumShard, d.Head.Name.Op)
				}
				for k := 0; k < n; k++ {
					p := d.Task(k)
					if p.Name.Shard != k {
						return fmt.Errorf("task %s: producer %d of its shuffle dependency is %s", t.Name, k, p.Name)
					}
					if p.NumPartition != t.Name.NumShard {
						return fmt.Errorf("task %s is shard %d of %d, but its producer %s writes %d partitions", t.Name, t.Name.Shard, t.Name.NumShard, p.Name, p.NumPartition)
					}
					if p.NumPartition > 1 && p.Partitioner == nil {
						return fmt.Errorf("producer %s writes %d partitions but has no partitioner", p.Name, p.NumPartition)
					}
				}
			} else {
				if d.Partition != 0 {
					return fmt.Errorf("task %s reads partition %d of its non-shuffle dependency %s", t.Name, d.Partition, d.Head.Name)
				}
				if d.Head.Name.Shard != t.Name.Shard {
					return fmt.Errorf("task %s (shard %d) depends on shard %d of %s without a shuffle", t.Name, t.Name.Shard, d.Head.Name.Shard, d.Head.Name.Op)
				}
			}
		}
	}
	return nil
}

func c08Check(c c08Case) error {
	var sigs [3]string
	for v := 0; v < 3; v++ {
		roots, results, err := c08Compile(c, v)
		if err != nil {
			return fmt.Errorf("variant %d: %v", v, err)
		}
		if err := c08WellFormed(c, roots, results); err != nil {
			return fmt.Errorf("variant %d: graph is not well-formed: %v", v, err)
		}
		sigs[v] = c08Signature(roots)
	}
	if sigs[0] != sigs[1] {
		return fmt.Errorf("compiling the same invocation twice gives different graphs:\n%s\n---\n%s", sigs[0], sigs[1])
	}
	if sigs[0] != sigs[2] {
		return fmt.Errorf("compiling the invocation after a gob round trip (as a worker does) gives a different graph:\n%s\n---\n%s", sigs[0], sigs[2])
	}
	return nil
}

var c08Ops = []string{"map", "map", "filter", "flatmap", "fold", "head", "reduce", "reduce", "cogroup", "reshuffle", "repartition", "reshard", "prefixed", "writerfunc", "source", "arg"}

func c08Gen(t *rapid.T) c08Case {
	var c c08Case
	nargs := rapid.SampledFrom([]int{0, 0, 1, 2}).Draw(t, "nargs")
	o := progen.Opts{MaxOps: 7, MaxRows: 12, Pragmas: true, NoScan: true, Ops: c08Ops}
	for i := 0; i < nargs; i++ {
		a := progen.Gen(t, progen.Opts{MaxOps: 3, MaxRows: 12, NoScan: true, NoObserver: true, Ops: []string{"map", "filter", "fold", "reduce", "cogroup", "reshuffle", "head", "prefixed"}})
		c.Args = append(c.Args, *a)
		root := a.Nodes[a.Root()]
		o.Args = append(o.Args, progen.ArgInfo{Schema: root.Schema, Shards: root.Shards})
		o.ArgLevels = append(o.ArgLevels, progen.LBag)
		o.ArgSubs = append(o.ArgSubs, false)
	}
	c.Spec = *progen.Gen(t, o)
	// every declared argument must exist even if the program does not use it
	c.MachineCombiners = rapid.Bool().Draw(t, "mc")
	return c
}

func c08Sig(err error) string {
	m := err.Error()
	switch {
	case strings.Contains(m, "panic"):
		return "compile:panic"
	case strings.Contains(m, "not well-formed"):
		for _, k := range []string{"partitions", "pipelines", "cycle", "named", "root", "partition ", "shards of"} {
			if strings.Contains(m, k) {
				return "compile:ill-formed:" + strings.TrimSpace(k)
			}
		}
		return "compile:ill-formed"
	case strings.Contains(m, "different graph"):
		return "compile:nondeterministic"
	}
	return "compile:error"
}

func c08Classes(c c08Case) (classes []string, nt bool) {
	cl, _ := progen.Classes(&c.Spec)
	for _, k := range cl {
		if k == "shuffle" {
			nt = true
		}
		if !strings.HasPrefix(k, "op:") || k == "op:arg" || k == "op:cogroup" {
			classes = append(classes, k)
		}
	}
	if len(c.Args) > 0 {
		classes = append(classes, "result-arguments")
	}
	if c.MachineCombiners {
		classes = append(classes, "machine-combiners")
	}
	return
}

const c08Random = "TestVerifC08Compile"

func TestVerifC08Compile(t *testing.T) {
	rec := vt.New("C08", "compile",
		"rapid: progen programs (1 source + 0..7 operators incl. shared sub-slices, custom partitioners, combiners, Procs/Exclusive/Materialize pragmas) over 0..2 Result arguments produced by other generated programs, machine combiners on/off; each is compiled three ways (invoke+compile, again, and after a gob round trip of the invocation with Result arguments travelling as references) and the canonical graph signatures (names, shard/partition counts, combine keys, wiring, groups, pragmas) must be identical; well-formedness predicates computed from the compiled graph: unique names, one root per result shard, consistent shard numbering per stage, acyclic, no pipelining across a shuffle / Materialize / reused result / multi-dependency slice, shuffle consumer shard p reads partition p of every producer shard and producers write as many partitions as the consumer has shards; non-trivial = program has a shuffle; distinct by case hash")
	docs, only := vt.Replays(c08Random)
	for _, d := range docs {
		var c c08Case
		if err := json.Unmarshal(d.Case, &c); err != nil {
			t.Fatal(err)
		}
		progen.Annotate(&c.Spec)
		for i := range c.Args {
			progen.Annotate(&c.Args[i])
		}
		rec.Case(true, vt.Hash(string(d.Case)), "replay")
		if err := c08Check(c); err != nil {
			rec.Violation(c08Random, c08Sig(err), err.Error(), c)
			t.Errorf("replay: %v", err)
		}
	}
	if only || t.Failed() {
		return
	}
	defer rec.Commit(c08Random)
	rapid.Check(t, func(rt *rapid.T) {
		c := c08Gen(rt)
		b, _ := json.Marshal(c)
		classes, nt := c08Classes(c)
		rec.Case(nt, vt.Hash(string(b)), classes...)
		if nt && rec.WantSample("program") {
			rec.Sample("program", map[string]interface{}{"program": progen.Summary(&c.Spec), "args": len(c.Args), "machine_combiners": c.MachineCombiners})
		}
		if err := c08Check(c); err != nil {
			rec.Pending(c08Sig(err), err.Error(), c)
			rt.Fatalf("%v", err)
		}
	})
}

const c08Shared = "TestVerifC08Shared"

type c08SharedCase struct {
	NShard      int  `json:"nshard"`
	NRows       int  `json:"nrows"`
	Materialize bool `json:"materialize"`
	A           int  `json:"a"`
	B           int  `json:"b"`
	MC          bool `json:"mc"`
	// Arg: the shared sub-slice is a reused Result (argument of the Func)
	Arg bool `json:"arg,omitempty"`
}

// TestVerifC08Shared enumerates Cogroup(A(s), B(s)) over one shared sub-slice
// for every ordered pair of consumer kinds: the programs in which the
// compiler's memo table decides what each consumer gets.
func TestVerifC08Shared(t *testing.T) {
	rec := vt.New("C08", "shared-subslice-pairs",
		fmt.Sprintf("complete enumeration of Cogroup(A(s), B(s)) over one shared sub-slice s = Map(ReaderFunc) for every ordered pair (A, B) of consumer kinds %v x shard counts {1,2,3} x {plain, Materialize pragma on s, s a reused Result passed as argument} x machine combiners on/off; same checks as compile; non-trivial = A != B; distinct by case", progen.SharedKinds))
	run := func(c c08SharedCase) error {
		if c.Arg {
			main, arg := progen.EnumSharedArg(c.NShard, c.NRows, c.A, c.B)
			return c08Check(c08Case{Spec: *main, Args: []progen.Spec{*arg}, MachineCombiners: c.MC})
		}
		return c08Check(c08Case{Spec: *progen.EnumShared(c.NShard, c.NRows, c.Materialize, c.A, c.B), MachineCombiners: c.MC})
	}
	docs, only := vt.Replays(c08Shared)
	for _, d := range docs {
		var c c08SharedCase
		if err := json.Unmarshal(d.Case, &c); err != nil {
			t.Fatal(err)
		}
		rec.Case(true, vt.Hash(string(d.Case)), "replay")
		if err := run(c); err != nil {
			rec.Violation(c08Shared, c08Sig(err), err.Error(), c)
			t.Errorf("replay: %v", err)
		}
	}
	if only || t.Failed() {
		return
	}
	idx := 0
	failed := map[string]bool{}
	for a := range progen.SharedKinds {
		for b := range progen.SharedKinds {
			for _, nshard := range []int{1, 2, 3} {
				for _, mode := range []int{0, 1, 2} { // plain, Materialize pragma, reused Result
					for _, mc := range []bool{false, true} {
						idx++
						if !vt.Mine(idx) {
							continue
						}
						mat := mode == 1
						c := c08SharedCase{nshard, 6, mat, a, b, mc, mode == 2}
						rec.Case(a != b, vt.Hash("shared", nshard, mode, a, b, mc), "pair:"+progen.SharedKinds[a]+"+"+progen.SharedKinds[b])
						if a != b && rec.WantSample("shared") {
							rec.Sample("shared", map[string]interface{}{"case": c, "a": progen.SharedKinds[a], "b": progen.SharedKinds[b]})
						}
						if err := run(c); err != nil {
							sig := c08Sig(err)
							if !failed[sig] {
								failed[sig] = true
								rec.Violation(c08Shared, sig, err.Error(), c)
								t.Errorf("%+v (%s, %s): %v", c, progen.SharedKinds[a], progen.SharedKinds[b], err)
							}
						}
					}
				}
			}
		}
	}
	rec.Exhaustive = true
}

const c08Deep = "TestVerifC08Deep"

type c08DeepCase struct {
	NShard int  `json:"nshard"`
	DA     int  `json:"da"`
	DB     int  `json:"db"`
	Shared bool `json:"shared_source"`
	MC     bool `json:"mc"`
}

var c08Depths = []int{0, 1, 2, 5, 12, 30, 60, 100}

// TestVerifC08Deep enumerates Cogroup(A, B) over two deeply pipelined
// branches (up to 100 operators each, so that the name of a stage runs to
// hundreds of bytes): names stay unique and every stage keeps its own tasks.
func TestVerifC08Deep(t *testing.T) {
	rec := vt.New("C08", "deep-pipelines",
		fmt.Sprintf("complete enumeration of Cogroup(A, B) with A, B pipelines of da, db in %v Map/Filter operators over one shared or two separate sources x shard counts {1,3} x machine combiners on/off; same checks as compile (unique names, one task per shard per stage, wiring, identical graph when compiled again and after transport); non-trivial = both branches non-empty; distinct by case", c08Depths))
	run := func(c c08DeepCase) error {
		return c08Check(c08Case{Spec: *progen.EnumDeep(c.NShard, 6, c.DA, c.DB, c.Shared), MachineCombiners: c.MC})
	}
	docs, only := vt.Replays(c08Deep)
	for _, d := range docs {
		var c c08DeepCase
		if err := json.Unmarshal(d.Case, &c); err != nil {
			t.Fatal(err)
		}
		rec.Case(true, vt.Hash(string(d.Case)), "replay")
		if err := run(c); err != nil {
			rec.Violation(c08Deep, c08Sig(err), err.Error(), c)
			t.Errorf("replay: %v", err)
		}
	}
	if only || t.Failed() {
		return
	}
	idx := 0
	failed := map[string]bool{}
	for _, da := range c08Depths {
		for _, db := range c08Depths {
			for _, nshard := range []int{1, 3} {
				for _, shared := range []bool{false, true} {
					for _, mc := range []bool{false, true} {
						idx++
						if !vt.Mine(idx) {
							continue
						}
						c := c08DeepCase{nshard, da, db, shared, mc}
						nt := da > 0 && db > 0
						rec.Case(nt, vt.Hash("deep", nshard, da, db, shared, mc), fmt.Sprintf("depth:%d", da))
						if nt && rec.WantSample("deep") {
							rec.Sample("deep", c)
						}
						if err := run(c); err != nil {
							sig := c08Sig(err)
							if !failed[sig] {
								failed[sig] = true
								rec.Violation(c08Deep, sig, err.Error(), c)
								t.Errorf("%+v: %v", c, err)
							}
						}
					}
				}
			}
		}
	}
	rec.Exhaustive = true
}

// TestVerifC08Child is the child side of the cross-process comparison.
func TestVerifC08Child(t *testing.T) {
	p := os.Getenv("VERIF_C08_CASES")
	if p == "" {
		t.Skip()
	}
	b, err := ioutil.ReadFile(p)
	if err != nil {
		t.Fatal(err)
	}
	var cases []c08Case
	if err := json.Unmarshal(b, &cases); err != nil {
		t.Fatal(err)
	}
	var sigs []string
	for _, c := range cases {
		progen.Annotate(&c.Spec)
		for i := range c.Args {
			progen.Annotate(&c.Args[i])
		}
		roots, _, err := c08Compile(c, 2)
		if err != nil {
			sigs = append(sigs, "error: "+err.Error())
			continue
		}
		sigs = append(sigs, c08Signature(roots))
	}
	out, _ := json.Marshal(sigs)
	if err := ioutil.WriteFile(p+".out", out, 0666); err != nil {
		t.Fatal(err)
	}
}

const c08Cross = "TestVerifC08CrossProcess"

func TestVerifC08CrossProcess(t *testing.T) {
	if os.Getenv("VERIF_C08_CASES") != "" {
		t.Skip()
	}
	rec := vt.New("C08", "cross-process",
		"rapid: batches of 10 generated cases are compiled in this process and, from the JSON-transported case, in a separately started process of the same binary (there: from the gob-transported invocation); the graph signatures must be identical; non-trivial = program has a shuffle; distinct by case hash")
	if _, only := vt.Replays(c08Cross); only {
		return
	}
	dir := os.Getenv("VERIF_SCRATCH")
	if dir == "" {
		dir = os.TempDir()
	}
	batch := 0
	defer rec.Commit(c08Cross)
	rapid.Check(t, func(rt *rapid.T) {
		var cases []c08Case
		for i := 0; i < 10; i++ {
			cases = append(cases, c08Gen(rt))
		}
		batch++
		f := filepath.Join(dir, fmt.Sprintf("c08-cases-%d.json", batch))
		b, _ := json.Marshal(cases)
		if err := ioutil.WriteFile(f, b, 0666); err != nil {
			rt.Fatalf("harness: %v", err)
		}
		cmd := osexec.Command(os.Args[0], "-test.run", "^TestVerifC08Child$")
		cmd.Env = append(os.Environ(), "VERIF_C08_CASES="+f, "VERIF_STATS=")
		if out, err := cmd.CombinedOutput(); err != nil {
			rt.Fatalf("harness: child failed: %v\n%s", err, out)
		}
		ob, err := ioutil.ReadFile(f + ".out")
		if err != nil {
			rt.Fatalf("harness: %v", err)
		}
		var theirs []string
		if err := json.Unmarshal(ob, &theirs); err != nil || len(theirs) != len(cases) {
			rt.Fatalf("harness: bad child output")
		}
		os.Remove(f)
		os.Remove(f + ".out")
		for i, c := range cases {
			cb, _ := json.Marshal(c)
			classes, nt := c08Classes(c)
			rec.Case(nt, vt.Hash(string(cb)), classes...)
			roots, _, err := c08Compile(c, 0)
			mine := ""
			if err != nil {
				mine = "error: " + err.Error()
			} else {
				mine = c08Signature(roots)
			}
			if nt && rec.WantSample("cross") {
				rec.Sample("cross", map[string]interface{}{"program": progen.Summary(&c.Spec), "signature_bytes": len(mine)})
			}
			if mine != theirs[i] {
				msg := fmt.Sprintf("the graph compiled in a separately started process differs:\nhere:\n%s\nthere:\n%s", mine, theirs[i])
				rec.Pending("compile:cross-process", msg, c)
				rt.Fatalf("%s", msg)
			}
		}
	})
}
