//go:build verif
// +build verif

package exec

import (
	"context"
	"encoding/json"
	"fmt"
	"testing"

	"github.com/grailbio/bigslice/frame"
	"github.com/grailbio/bigslice/sliceio"
	"github.com/grailbio/bigslice/zzverif/vgen"
	"github.com/grailbio/bigslice/zzverif/vt"
	"pgregory.net/rapid"
)

type verifC17Case struct {
	Kind        string         `json:"kind"` // taskbuffer | multireader
	Schema      vgen.Schema    `json:"schema"`
	Parts       [][][][]int    `json:"parts"` // partition -> frame -> rows -> selectors
	Part        int            `json:"part"`
	Scripts     [][]vgen.Chunk `json:"scripts"`
	EOFWithRows []bool         `json:"eof_with_rows"`
	Dest        []int          `json:"dest"`
}

func verifC17Run(c verifC17Case) (err error) {
	defer func() {
		if r := recover(); r != nil {
			_, stack := vt.PanicSig(r)
			err = fmt.Errorf("panic: %v\n%s", r, stack)
		}
	}()
	ctx := context.Background()
	s := c.Schema
	var want []vgen.Row
	var r sliceio.Reader
	switch c.Kind {
	case "taskbuffer":
		buf := make(taskBuffer, len(c.Parts))
		for p, frames := range c.Parts {
			for _, rows := range frames {
				buf[p] = append(buf[p], s.MakeFrame(rows))
				if p == c.Part%len(c.Parts) {
					want = append(want, s.Rows(rows)...)
				}
			}
		}
		r = buf.Reader(c.Part % len(c.Parts))
	case "multireader":
		m := &multiReader{}
		k := 0
		for _, frames := range c.Parts {
			for _, rows := range frames {
				cr := vgen.NewChunkReader(s.MakeFrame(rows), c.Scripts[k%len(c.Scripts)], c.EOFWithRows[k%len(c.EOFWithRows)])
				m.q = append(m.q, cr)
				want = append(want, s.Rows(rows)...)
				k++
			}
		}
		r = m
	}
	res, contract := s.Drain(ctx, r, c.Dest, 20*len(want)+400)
	if contract != nil {
		return fmt.Errorf("%s: %v", c.Kind, contract)
	}
	if res.Err != nil {
		return fmt.Errorf("%s: unexpected error %v", c.Kind, res.Err)
	}
	if e := vgen.SameSeq(res.Rows, want); e != nil {
		return fmt.Errorf("%s: %v", c.Kind, e)
	}
	return nil
}

const verifC17Name = "TestVerifC17ExecReaders"

func TestVerifC17ExecReaders(t *testing.T) {
	rec := vt.New("C17", "exec-readers",
		"rapid: exec's taskBuffer.Reader(partition) over 1..4 partitions of 0..4 frames of 0..140 rows, and exec's multiReader over chunking sub-readers (zero-row reads, EOF with or after the last rows), read with destination-size schedules; oracle: exact row sequence, Reader contract; non-trivial = more than one frame/sub-reader holds rows; distinct by case hash")
	docs, only := vt.Replays(verifC17Name)
	for _, d := range docs {
		var c verifC17Case
		if err := json.Unmarshal(d.Case, &c); err != nil {
			t.Fatal(err)
		}
		rec.Case(true, vt.Hash(string(d.Case)), "replay")
		if err := verifC17Run(c); err != nil {
			rec.Violation(verifC17Name, c.Kind, err.Error(), c)
			t.Errorf("replay: %v", err)
		}
	}
	if only || t.Failed() {
		return
	}
	defer rec.Commit(verifC17Name)
	rapid.Check(t, func(rt *rapid.T) {
		var c verifC17Case
		c.Kind = rapid.SampledFrom([]string{"taskbuffer", "multireader"}).Draw(rt, "kind")
		c.Schema = vgen.GenSchema(rt, 3, false, true)
		np := rapid.IntRange(1, 4).Draw(rt, "nparts")
		nonEmpty := 0
		for p := 0; p < np; p++ {
			var frames [][][]int
			nf := rapid.IntRange(0, 4).Draw(rt, "nframes")
			for f := 0; f < nf; f++ {
				n := vgen.SizeGen(140).Draw(rt, "rows")
				frames = append(frames, vgen.GenRows(rt, len(c.Schema.Cols), n, 24))
				if n > 0 {
					nonEmpty++
				}
			}
			c.Parts = append(c.Parts, frames)
		}
		c.Part = rapid.IntRange(0, np-1).Draw(rt, "part")
		for i := 0; i < 3; i++ {
			c.Scripts = append(c.Scripts, vgen.GenScript(rt, true, 140))
			c.EOFWithRows = append(c.EOFWithRows, rapid.Bool().Draw(rt, "eofwithrows"))
		}
		c.Dest = vgen.GenDestSizes(rt, 200)
		b, _ := json.Marshal(c)
		rec.Case(nonEmpty >= 2, vt.Hash(string(b)), c.Kind)
		if nonEmpty >= 2 && rec.WantSample(c.Kind) {
			rec.Sample(c.Kind, map[string]interface{}{"kind": c.Kind, "columns": c.Schema.Names(), "partitions": len(c.Parts), "dest": c.Dest})
		}
		if err := verifC17Run(c); err != nil {
			rec.Pending(c.Kind, err.Error(), c)
			rt.Fatalf("%v", err)
		}
	})
}

var _ = frame.Empty
