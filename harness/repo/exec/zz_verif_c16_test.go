//go:build verif
// +build verif

package exec

// Property C16 (codec part): the function index and arguments of an invocation
// survive the invocation codec.

import (
	"bytes"
	"encoding/gob"
	"encoding/json"
	"fmt"
	"reflect"
	"sort"
	"strings"
	"testing"

	"github.com/grailbio/bigslice"
	"github.com/grailbio/bigslice/zzverif/vt"
	"pgregory.net/rapid"
)

type VerifC16Struct struct {
	A int
	B string
	C []int
	M map[string]int
	P *VerifC16Inner
}

type VerifC16Inner struct {
	X float64
	Y []string
}

func init() {
	gob.Register(VerifC16Struct{})
	gob.Register(&VerifC16Inner{})
	gob.Register([]int{})
	gob.Register(map[string]int{})
	gob.Register([]string{})
}

var verifC16Func = bigslice.Func(func(i int, u uint16, s string, f float64, b []byte, is []int, m map[string]int, st VerifC16Struct, p *VerifC16Inner, any interface{}, res *Result, sl bigslice.Slice) bigslice.Slice {
	return bigslice.Const(1, []int{i})
})

// c16Args is the generated argument list in JSON-friendly form.
type c16Args struct {
	I    int            `json:"i"`
	U    uint16         `json:"u"`
	S    string         `json:"s"`
	F    float64        `json:"f"`
	B    []byte         `json:"b"`
	Is   []int          `json:"is"`
	M    map[string]int `json:"m"`
	St   int            `json:"st"`  // selector for the struct
	P    int            `json:"p"`   // 0: non-nil variants (nil pointers cannot be gob-encoded)
	Any  int            `json:"any"` // selector for the interface{} argument
	Res  int            `json:"res"` // invocation index of the *Result argument
	Sl   int            `json:"sl"`  // invocation index of the Slice argument
	Excl bool           `json:"excl"`
}

func c16Struct(k int) VerifC16Struct {
	st := VerifC16Struct{A: k, B: fmt.Sprint("b", k)}
	if k%2 == 1 {
		st.C = []int{k, k + 1}
	}
	if k%3 == 1 {
		st.M = map[string]int{"k": k}
	}
	if k%4 >= 2 {
		st.P = &VerifC16Inner{X: float64(k) / 2, Y: []string{"y"}}
	}
	return st
}

func c16Any(k int) interface{} {
	switch k % 9 {
	case 0:
		return 17
	case 1:
		return "str"
	case 2:
		return []int{1, 2, 3}
	case 3:
		return c16Struct(k)
	case 4:
		return map[string]int{"a": 1}
	case 5:
		return 2.5
	case 6:
		return true
	case 7:
		return &VerifC16Inner{X: 1, Y: nil}
	}
	return []string{"x", "y"}
}

func c16Canon(v reflect.Value) string {
	if !v.IsValid() {
		return "nil"
	}
	switch v.Kind() {
	case reflect.Ptr, reflect.Interface:
		if v.IsNil() {
			return "nil"
		}
		return "&" + c16Canon(v.Elem())
	case reflect.Slice:
		if v.Type().Elem().Kind() == reflect.Uint8 {
			return fmt.Sprintf("bytes%q", v.Bytes())
		}
		var el []string
		for i := 0; i < v.Len(); i++ {
			el = append(el, c16Canon(v.Index(i)))
		}
		return "[" + strings.Join(el, ",") + "]"
	case reflect.Map:
		var el []string
		for _, k := range v.MapKeys() {
			el = append(el, c16Canon(k)+":"+c16Canon(v.MapIndex(k)))
		}
		sort.Strings(el)
		return "{" + strings.Join(el, ",") + "}"
	case reflect.Struct:
		var el []string
		for i := 0; i < v.NumField(); i++ {
			if v.Type().Field(i).PkgPath != "" {
				continue
			}
			el = append(el, v.Type().Field(i).Name+"="+c16Canon(v.Field(i)))
		}
		return v.Type().String() + "(" + strings.Join(el, ";") + ")"
	case reflect.Float64, reflect.Float32:
		return fmt.Sprintf("%T(%v)", v.Interface(), v.Float())
	}
	return fmt.Sprintf("%T(%v)", v.Interface(), v.Interface())
}

func c16RoundTrip(a c16Args) (err error) {
	defer func() {
		if r := recover(); r != nil {
			_, stack := vt.PanicSig(r)
			err = fmt.Errorf("panic: %v\n%s", r, stack)
		}
	}()
	res := &Result{invIndex: uint64(a.Res)}
	sl := &Result{invIndex: uint64(a.Sl)}
	p := &VerifC16Inner{X: float64(a.P), Y: []string{fmt.Sprint(a.P)}}
	args := []interface{}{a.I, a.U, a.S, a.F, a.B, a.Is, a.M, c16Struct(a.St), p, c16Any(a.Any), res, sl}
	fv := verifC16Func
	if a.Excl {
		fv = fv.Exclusive()
	}
	inv := makeExecInvocation(fv.Invocation("some/file.go:12", args...))
	// what the executor does before transport: Results become references
	send := inv
	send.Args = append([]interface{}{}, inv.Args...)
	for i, x := range send.Args {
		if r, ok := x.(*Result); ok {
			send.Args[i] = invocationRef{r.invIndex}
		}
	}
	var buf bytes.Buffer
	if e := gob.NewEncoder(&buf).Encode(send); e != nil {
		return fmt.Errorf("encoding an invocation whose arguments are all gob-encodable failed: %v", e)
	}
	var got execInvocation
	if e := gob.NewDecoder(&buf).Decode(&got); e != nil {
		return fmt.Errorf("decoding failed: %v", e)
	}
	if got.Index != inv.Index || got.Func != inv.Func || got.Exclusive != inv.Exclusive || got.Location != inv.Location {
		return fmt.Errorf("header changed in transport: sent (index %d func %d excl %v loc %q), received (index %d func %d excl %v loc %q)", inv.Index, inv.Func, inv.Exclusive, inv.Location, got.Index, got.Func, got.Exclusive, got.Location)
	}
	if len(got.Args) != len(send.Args) {
		return fmt.Errorf("%d arguments sent, %d received", len(send.Args), len(got.Args))
	}
	for i := range send.Args {
		want, have := c16Canon(reflect.ValueOf(send.Args[i])), c16Canon(reflect.ValueOf(got.Args[i]))
		if want != have {
			return fmt.Errorf("argument %d changed in transport: sent %s, received %s", i, want, have)
		}
		if st, ht := reflect.TypeOf(send.Args[i]), reflect.TypeOf(got.Args[i]); st != ht {
			return fmt.Errorf("argument %d changed type in transport: sent %v, received %v", i, st, ht)
		}
	}
	return nil
}

const c16Name = "TestVerifC16InvocationCodec"

func TestVerifC16InvocationCodec(t *testing.T) {
	rec := vt.New("C16", "invocation-codec",
		"rapid: argument lists for a registered Func with parameters (int, uint16, string, float64, []byte, []int, map[string]int, struct with nested slice/map/pointer, pointer, interface{} holding 9 registered concrete types, *Result, bigslice.Slice holding a Result), normal and Exclusive; the invocation is gob-encoded with Results replaced by references (as the executor does) and decoded; oracle: header fields equal, every argument equal (nil and empty slices/maps equivalent) and of the same dynamic type; non-trivial = at least one slice/map/struct argument is non-empty; distinct by case hash")
	docs, only := vt.Replays(c16Name)
	for _, d := range docs {
		var a c16Args
		if err := json.Unmarshal(d.Case, &a); err != nil {
			t.Fatal(err)
		}
		rec.Case(true, vt.Hash(string(d.Case)), "replay")
		if err := c16RoundTrip(a); err != nil {
			rec.Violation(c16Name, "invocation-codec", err.Error(), a)
			t.Errorf("replay: %v", err)
		}
	}
	if only || t.Failed() {
		return
	}
	defer rec.Commit(c16Name)
	rapid.Check(t, func(rt *rapid.T) {
		var a c16Args
		a.I = rapid.Int().Draw(rt, "i")
		a.U = rapid.Uint16().Draw(rt, "u")
		a.S = rapid.String().Draw(rt, "s")
		a.F = rapid.Float64Range(-1e300, 1e300).Draw(rt, "f")
		a.B = rapid.SliceOfN(rapid.Byte(), 0, 20).Draw(rt, "b")
		a.Is = rapid.SliceOfN(rapid.Int(), 0, 8).Draw(rt, "is")
		if rapid.Bool().Draw(rt, "hasmap") {
			a.M = rapid.MapOfN(rapid.StringN(0, 4, -1), rapid.IntRange(-5, 5), 0, 4).Draw(rt, "m")
		}
		a.St = rapid.IntRange(0, 11).Draw(rt, "st")
		a.P = rapid.IntRange(0, 5).Draw(rt, "p")
		a.Any = rapid.IntRange(0, 8).Draw(rt, "any")
		a.Res = rapid.IntRange(1, 1000).Draw(rt, "res")
		a.Sl = rapid.IntRange(1, 1000).Draw(rt, "sl")
		a.Excl = rapid.Bool().Draw(rt, "excl")
		b, _ := json.Marshal(a)
		nt := len(a.Is) > 0 || len(a.M) > 0 || a.St%2 == 1
		rec.Case(nt, vt.Hash(string(b)), fmt.Sprintf("any:%T", c16Any(a.Any)))
		if nt && rec.WantSample("args") {
			rec.Sample("args", a)
		}
		if err := c16RoundTrip(a); err != nil {
			rec.Pending("invocation-codec", err.Error(), a)
			rt.Fatalf("%v", err)
		}
	})
}
