//go:build verif
// +build verif

package exec

import (
	"io/ioutil"
	"log"
	"os"
	"testing"

	"github.com/grailbio/bigslice/zzverif/vt"
)

func TestMain(m *testing.M) {
	if os.Getenv("VERIF_STATS") != "" {
		log.SetOutput(ioutil.Discard)
	}
	code := m.Run()
	vt.Flush()
	os.Exit(code)
}
