#!/usr/bin/env python3
"""Regenerates /verif/MANIFEST.json from lib/checks.py and lib/manifest_text.py."""
import json, os, sys
VERIF = os.path.dirname(os.path.dirname(os.path.abspath(__file__)))
sys.path.insert(0, os.path.join(VERIF, "lib"))
from checks import CHECKS
from manifest_text import TEXT, NOT_APPLICABLE

props = [json.loads(l)["id"] for l in open(os.path.join(VERIF, "properties.jsonl"))]
checks = []
na = []
for pid in props:
    if pid in CHECKS and pid in TEXT:
        t = TEXT[pid]
        checks.append({
            "property_id": pid,
            "quick_cmd": "./vcheck %s --tier quick" % pid,
            "thorough_cmd": "./vcheck %s --tier thorough" % pid,
            "evidence_file": "/verif/evidence/%s.json" % pid,
            "replay_cmd_template": "./vcheck %s --replay {path}" % pid,
            "engine": "vcheck",
            "level_claimed": {"category": CHECKS[pid]["level"], "text": t["text"], "design_ref": t["design_ref"]},
            "level_note": t["note"],
            "technique": t["technique"],
        })
    else:
        na.append({"property_id": pid, "reason": NOT_APPLICABLE.get(pid, "check not built yet in this session; see DESIGN.md for the planned check")})
m = {
    "version": 1,
    "setup_cmd": "./vcheck setup",
    "hooks": {
        "guard": "verif",
        "enable": "go test -tags verif -modfile=/verif/build/go.mod -overlay=/verif/build/overlay.json (all harness files live under /verif/harness/repo and are overlaid into /repo at build time; every one carries the build tag 'verif'; nothing is committed to /repo for hooks)",
        "baseline_off_cmd": json.load(open("/root/.vp/BASELINE.json"))["cmd"],
        "source_commits": [],
        "add_only": True,
    },
    "engines": [{"name": "vcheck", "path": "/verif/vcheck", "serves_properties": [c["property_id"] for c in checks],
                 "kind_free_text": "python driver: builds Go test binaries from /repo's working tree (modfile+overlay), runs rapid / bounded-enumeration / native-fuzz property tests in sharded processes, merges measured statistics into evidence"}],
    "checks": checks,
    "not_applicable": na,
    "notes": "Property-based testing and fuzzing only. See DESIGN.md. Exit 2 from a check means 'cannot decide' (build failure, budget) and is never a violation.",
}
json.dump(m, open(os.path.join(VERIF, "MANIFEST.json"), "w"), indent=1)
print("claimed:", [c["property_id"] for c in checks])
