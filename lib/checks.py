"""Per-property job tables for /verif/vcheck.

A job = one test binary invocation pattern:
  name      unique job name                 bin    binary name (one build per bin/tool/race)
  pkg       package path relative to /repo  run    -test.run regexp
  shards    {tier: number of processes}     checks {tier: -rapid.checks per process}
  timeout   {tier: seconds per process}     tool   go | go1.26.8
  race      build with -race                env    extra environment
  tier_only restrict the job to one tier
"""

ZZ = "./zzverif/"

CHECKS = {}


def add(pid, level, jobs, assumptions=None):
    CHECKS[pid] = {"level": level, "jobs": jobs, "assumptions": assumptions or []}


add("C11", "exploration", [
    {"name": "c11-model", "bin": "c11", "pkg": ZZ + "c11", "run": "^TestVerifC11FrameModel$",
     "shards": {"quick": 8, "thorough": 16}, "checks": {"quick": 4000, "thorough": 150000},
     "timeout": {"quick": 300, "thorough": 2400}},
])

add("C07", "fault_enumeration", [
    {"name": "c07-roundtrip", "bin": "c07", "pkg": ZZ + "c07", "run": "^TestVerifC07RoundTrip$",
     "shards": {"quick": 4, "thorough": 8}, "checks": {"quick": 300, "thorough": 6000},
     "timeout": {"quick": 300, "thorough": 2400}},
    {"name": "c07-damage", "bin": "c07", "pkg": ZZ + "c07", "run": "^TestVerifC07Damage$",
     "shards": {"quick": 8, "thorough": 16}, "checks": {"quick": 12, "thorough": 400},
     "timeout": {"quick": 300, "thorough": 2400}},
])

CHECKS["C07"]["jobs"].append(
    {"name": "c07-fuzz", "bin": "c07", "pkg": ZZ + "c07", "run": "^$", "tier_only": "thorough",
     "fuzz": {"target": "FuzzVerifC07Decode", "time": {"thorough": "120s"}, "replay_test": "^TestVerifC07FuzzReplay$"},
     "shards": {"thorough": 1}, "weight": 16, "timeout": {"thorough": 900}, "mem_gb": 24})

add("C10", "exploration", [
    {"name": "c10-sortio", "bin": "c10", "pkg": ZZ + "c10", "run": "^TestVerifC10SortMergeReduce$",
     "shards": {"quick": 8, "thorough": 16}, "checks": {"quick": 1500, "thorough": 25000},
     "timeout": {"quick": 900, "thorough": 3300}},
])

add("C01", "exploration", [
    {"name": "c01-enum", "bin": "c01", "pkg": ZZ + "c01", "run": "^TestVerifC01(Enum|Shared|CogroupGaps)$",
     "shards": {"quick": 6, "thorough": 16}, "timeout": {"quick": 600, "thorough": 3000}},
    {"name": "c01-random", "bin": "c01", "pkg": ZZ + "c01", "run": "^TestVerifC01Random$",
     "shards": {"quick": 10, "thorough": 16}, "checks": {"quick": 300, "thorough": 15000},
     "timeout": {"quick": 600, "thorough": 3000}},
])

add("C17", "exploration", [
    {"name": "c17-readers", "bin": "c17", "pkg": ZZ + "c17", "run": "^TestVerifC17Readers$",
     "shards": {"quick": 8, "thorough": 16}, "checks": {"quick": 1500, "thorough": 50000},
     "timeout": {"quick": 600, "thorough": 3000}},
    {"name": "c17-exec", "bin": "exec", "pkg": "./exec", "run": "^TestVerifC17ExecReaders$",
     "shards": {"quick": 4, "thorough": 8}, "checks": {"quick": 1500, "thorough": 40000},
     "timeout": {"quick": 600, "thorough": 3000}},
])

add("C09", "exploration", [
    {"name": "c09-enum", "bin": "exec", "pkg": "./exec", "run": "^TestVerifC09CombiningFrameEnum$",
     "shards": {"quick": 4, "thorough": 16}, "timeout": {"quick": 600, "thorough": 3000}},
    {"name": "c09-random", "bin": "exec", "pkg": "./exec", "run": "^TestVerifC09CombinerRandom$",
     "shards": {"quick": 8, "thorough": 16}, "checks": {"quick": 400, "thorough": 12000},
     "timeout": {"quick": 600, "thorough": 3000}},
])

add("C20", "exploration", [
    {"name": "c20-laws", "bin": "c20", "pkg": ZZ + "c20", "run": "^TestVerifC20(Laws|KnownReduceCombiner)$",
     "shards": {"quick": 4, "thorough": 8}, "checks": {"quick": 2000, "thorough": 100000},
     "timeout": {"quick": 300, "thorough": 2400}},
    {"name": "c20-e2e", "bin": "c20", "pkg": ZZ + "c20", "run": "^TestVerifC20EndToEnd$",
     "shards": {"quick": 8, "thorough": 12}, "checks": {"quick": 60, "thorough": 3000},
     "timeout": {"quick": 600, "thorough": 3000}},
])

add("C06", "fault_enumeration", [
    {"name": "c06-matrix", "bin": "c06", "pkg": ZZ + "c06", "run": "^TestVerifC06Matrix$",
     "shards": {"quick": 12, "thorough": 16}, "timeout": {"quick": 900, "thorough": 3000}},
    {"name": "c06-random", "bin": "c06", "pkg": ZZ + "c06", "run": "^TestVerifC06Random$", "tier_only": "thorough",
     "shards": {"thorough": 12}, "checks": {"thorough": 40}, "timeout": {"thorough": 3000}, "shrinktime": "60s"},
])

add("C03", "exploration", [
    {"name": "c03-random", "bin": "exec", "pkg": "./exec", "run": "^TestVerifC03EvalRandom$", "tool": "go1.26.8",
     "shards": {"quick": 8, "thorough": 16}, "checks": {"quick": 1500, "thorough": 60000},
     "timeout": {"quick": 600, "thorough": 3000}},
    {"name": "c03-enum", "bin": "exec", "pkg": "./exec", "run": "^TestVerifC03(EvalEnum|EvalLossEnum|KnownS5)$", "tool": "go1.26.8",
     "shards": {"quick": 8, "thorough": 16}, "timeout": {"quick": 600, "thorough": 3000}},
])

add("C18", "exploration", [
    {"name": "c18-funcs", "bin": "c18", "pkg": ZZ + "c18", "run": "^TestVerifC18FunctionConstructors$",
     "shards": {"quick": 8, "thorough": 16}, "timeout": {"quick": 600, "thorough": 3000}},
    {"name": "c18-slices", "bin": "c18", "pkg": ZZ + "c18", "run": "^TestVerifC18SliceConstructors$",
     "shards": {"quick": 1, "thorough": 1}, "timeout": {"quick": 600, "thorough": 3000}},
])

add("C08", "exploration", [
    {"name": "c08-compile", "bin": "exec", "pkg": "./exec", "run": "^TestVerifC08(Compile|Shared|Deep)$",
     "shards": {"quick": 8, "thorough": 16}, "checks": {"quick": 500, "thorough": 15000},
     "timeout": {"quick": 600, "thorough": 3000}},
    {"name": "c08-cross", "bin": "exec", "pkg": "./exec", "run": "^TestVerifC08CrossProcess$",
     "shards": {"quick": 4, "thorough": 8}, "checks": {"quick": 8, "thorough": 60},
     "timeout": {"quick": 600, "thorough": 3000}},
])

add("C16", "exploration", [
    {"name": "c16-codec", "bin": "exec", "pkg": "./exec", "run": "^TestVerifC16InvocationCodec$",
     "shards": {"quick": 4, "thorough": 8}, "checks": {"quick": 1500, "thorough": 50000},
     "timeout": {"quick": 600, "thorough": 3000}},
    {"name": "c16-args", "bin": "c16", "pkg": ZZ + "c16", "run": "^TestVerifC16Arguments$",
     "shards": {"quick": 6, "thorough": 12}, "checks": {"quick": 60, "thorough": 2500},
     "timeout": {"quick": 600, "thorough": 3000}},
    {"name": "c16-multi", "bin": "c16", "pkg": ZZ + "c16", "run": "^TestVerifC16MultiResult$",
     "shards": {"quick": 8, "thorough": 16}, "checks": {"quick": 12, "thorough": 200},
     "timeout": {"quick": 900, "thorough": 3000}, "shrinktime": "60s"},
    {"name": "c16-diff", "bin": "c16", "pkg": ZZ + "c16", "run": "^TestVerifC16LocationsDiff$",
     "shards": {"quick": 4, "thorough": 8}, "checks": {"quick": 2000, "thorough": 60000},
     "timeout": {"quick": 600, "thorough": 3000}},
])

add("C15", "fault_enumeration", [
    {"name": "c15-stores", "bin": "exec", "pkg": "./exec", "run": "^TestVerifC15Stores$",
     "shards": {"quick": 8, "thorough": 16}, "checks": {"quick": 40, "thorough": 1500},
     "timeout": {"quick": 600, "thorough": 3000}},
    {"name": "c15-retry", "bin": "exec", "pkg": "./exec", "run": "^TestVerifC15RetryReader$",
     "shards": {"quick": 8, "thorough": 16}, "checks": {"quick": 200, "thorough": 5000},
     "timeout": {"quick": 600, "thorough": 3000}},
])

add("C14", "exploration", [
    {"name": "c14-schedule", "bin": "exec", "pkg": "./exec", "run": "^TestVerifC14Schedule$",
     "shards": {"quick": 4, "thorough": 16}, "timeout": {"quick": 600, "thorough": 3000}},
    {"name": "c14-exit", "bin": "exec", "pkg": "./exec", "run": "^TestVerifC14ExitPaths$",
     "shards": {"quick": 8, "thorough": 16}, "timeout": {"quick": 900, "thorough": 3000}},
    {"name": "c14-local", "bin": "exec", "pkg": "./exec", "run": "^TestVerifC14LocalLimiter$",
     "shards": {"quick": 4, "thorough": 8}, "checks": {"quick": 40, "thorough": 1500},
     "timeout": {"quick": 600, "thorough": 3000}},
    {"name": "c14-live", "bin": "exec", "pkg": "./exec", "run": "^TestVerifC14LiveManager$",
     "shards": {"quick": 8, "thorough": 16}, "checks": {"quick": 12, "thorough": 300},
     "timeout": {"quick": 900, "thorough": 3000}},
])

add("C04", "exploration", [
    {"name": "c04-configs", "bin": "c04", "pkg": ZZ + "c04", "run": "^TestVerifC04(Configurations|CombinerContention)$",
     "shards": {"quick": 12, "thorough": 16}, "checks": {"quick": 6, "thorough": 250},
     "timeout": {"quick": 900, "thorough": 3300}, "shrinktime": "60s"},
])

add("C05", "exploration", [
    {"name": "c05-placement", "bin": "c05", "pkg": ZZ + "c05", "run": "^TestVerifC05Placement$",
     "shards": {"quick": 9, "thorough": 12}, "checks": {"quick": 30, "thorough": 1500},
     "timeout": {"quick": 900, "thorough": 3300}},
    {"name": "c05-exhaustive", "bin": "c05", "pkg": ZZ + "c05", "run": "^TestVerifC05(Exhaustive|SharedViews|SharedResult)$",
     "shards": {"quick": 4, "thorough": 16}, "timeout": {"quick": 900, "thorough": 3300}},
])

add("C02", "fault_enumeration", [
    {"name": "c02-single", "bin": "c02", "pkg": ZZ + "c02", "run": "^TestVerifC02SingleKill$",
     "shards": {"quick": 12, "thorough": 16}, "checks": {"quick": 1, "thorough": 1},
     "timeout": {"quick": 1200, "thorough": 7000}},
    {"name": "c02-multi", "bin": "c02", "pkg": ZZ + "c02", "run": "^TestVerifC02MultiKill$",
     "shards": {"quick": 4, "thorough": 16}, "checks": {"quick": 1, "thorough": 12},
     "timeout": {"quick": 1200, "thorough": 7000}, "shrinktime": "120s"},
])

add("C12", "exploration", [
    {"name": "c12-reuse", "bin": "c12", "pkg": ZZ + "c12", "run": "^TestVerifC12Reuse$",
     "shards": {"quick": 12, "thorough": 16}, "checks": {"quick": 12, "thorough": 500},
     "timeout": {"quick": 900, "thorough": 3300}, "shrinktime": "90s"},
    {"name": "c12-shapes", "bin": "c12", "pkg": ZZ + "c12", "run": "^TestVerifC12ReuseShapes$",
     "shards": {"quick": 4, "thorough": 8}, "timeout": {"quick": 900, "thorough": 3300}},
    {"name": "c12-window", "bin": "exec", "pkg": "./exec", "run": "^TestVerifC12DiscardBeforeAssign$",
     "shards": {"quick": 4, "thorough": 4}, "timeout": {"quick": 600, "thorough": 900}},
    {"name": "c12-discardrace", "bin": "c12", "pkg": ZZ + "c12", "run": "^TestVerifC12DiscardRightAfterRun$",
     "shards": {"quick": 8, "thorough": 16}, "timeout": {"quick": 900, "thorough": 3300}},
])

add("C13", "fault_enumeration", [
    {"name": "c13-cache", "bin": "c13", "pkg": ZZ + "c13", "run": "^TestVerifC13(Cache|Shapes|KnownZstd)$",
     "shards": {"quick": 12, "thorough": 16}, "checks": {"quick": 5, "thorough": 150},
     "timeout": {"quick": 900, "thorough": 3300}, "shrinktime": "90s"},
])

add("C19", "exploration", [
    {"name": "c19-concurrent", "bin": "c19", "pkg": ZZ + "c19", "run": "^TestVerifC19Concurrent$",
     "shards": {"quick": 12, "thorough": 16}, "checks": {"quick": 40, "thorough": 400},
     "timeout": {"quick": 900, "thorough": 3300}, "shrinktime": "90s"},
    {"name": "c19-race", "bin": "c19", "pkg": ZZ + "c19", "run": "^TestVerifC19Concurrent$", "race": True, "tier_only": "thorough",
     "shards": {"thorough": 8}, "checks": {"thorough": 40}, "timeout": {"thorough": 3300}, "shrinktime": "30s",
     "env": {"GORACE": "halt_on_error=0"}},
])
