NOT_APPLICABLE = {}
TEXT = {
 "C11": {
  "text": "Model-based random exploration: generated sequences of every public frame operation (Make, Slices, Values, Slice, Prefixed, Grow, Ensure, Copy, AppendFrame, Swap, Less, Hash, Zero, all read accessors, Encode/Decode, sort.Sort) over a 20-type column universe are compared after every step with a slice-of-rows model of the whole parent storage, so a write outside a view or a wrong offset is observed at the step it happens. Sampling, not proof: bounded to sequences of 24 operations and frames of up to ~40 rows.",
  "design_ref": "DESIGN.md 4 C11",
  "note": "Ground truth for memory is read through the Go slices that back each frame (obtained without offset arithmetic). Hash position-independence is checked metamorphically against a fresh single-row frame.",
  "technique": "stateful property-based testing (rapid) against a reference model",
 },
}
