NOT_APPLICABLE = {}
TEXT = {
 "C11": {
  "text": "Model-based random exploration: generated sequences of every public frame operation (Make, Slices, Values, Slice, Prefixed, Grow, Ensure, Copy, AppendFrame, Swap, Less, Hash, Zero, all read accessors, Encode/Decode, sort.Sort) over a 20-type column universe are compared after every step with a slice-of-rows model of the whole parent storage, so a write outside a view or a wrong offset is observed at the step it happens. Sampling, not proof: bounded to sequences of 24 operations and frames of up to ~40 rows.",
  "design_ref": "DESIGN.md 4 C11",
  "note": "Ground truth for memory is read through the Go slices that back each frame (obtained without offset arithmetic). Hash position-independence is checked metamorphically against a fresh single-row frame.",
  "technique": "stateful property-based testing (rapid) against a reference model",
 },
 "C07": {
  "text": "Round trip: rapid-generated streams (17-type universe incl. gob structs/slices/maps and a custom codec with per-stream dictionary state, empty batches, sizes around 128/256, destination-size schedules, byte sources with and without io.ByteReader) must decode to exactly the rows written. Integrity: for each generated small stream EVERY single-bit flip and EVERY truncation point of its encoded bytes is executed (complete per stream), plus random bursts / multi-point damage on larger streams; delivered rows must be a prefix of the written rows, damage inside batch k must give a non-EOF error with no row of batch >= k delivered, guard rows around every destination view must stay untouched, no panic. Thorough adds native coverage-guided fuzzing of the decoder with a round-trip oracle inside the target.",
  "design_ref": "DESIGN.md 4 C07",
  "note": "Streams whose (damaged) top-level int message exceeds 2^20 are excluded by construction and counted (corrupt length -> giant allocation; see DESIGN.md findings). CRC32 collisions (2^-32 per multi-byte damage) are accepted. Native fuzzing is not seed-reproducible; a saved crasher is the reproducible unit.",
  "technique": "property-based round trip + exhaustive single-fault enumeration per generated stream + coverage-guided fuzzing",
 },
 "C10": {
  "text": "Random exploration of sortio's three public entry points (SortReader, NewMergeReader, Reduce) over generated schemas (key prefix 1..3, 17 column types), 0..5 input streams delivered through chunking readers (arbitrary chunk sizes, EOF with or after the last rows, zero-row reads for the sorting reader only, injected read errors at any row), all internal size knobs (sort canary 1..256, spill batch 1..128, spill target 1 byte..1 MiB, merge buffer 1..128) and destination-size schedules. Oracle in both directions: output is key-ordered AND a permutation / sorted union / one folded row per key of the input; an injected error must surface (never EOF); no spiller directory may remain after SortReader returns; Reader contract on every read.",
  "design_ref": "DESIGN.md 4 C10",
  "note": "Inputs to merge/reduce are pre-sorted (and pre-combined) by the harness as the API requires; combiners are commutative and associative. Private TMPDIR per process makes the spill-directory check exact.",
  "technique": "property-based testing (rapid) with reference oracle (sort/merge/fold of the input multiset)",
 },
 "C01": {
  "text": "Generated bigslice programs (operator DAGs over the full public operator set, built from a function algebra with reflect.MakeFunc so that the same user functions drive a sequential reference interpreter) are run on the local executor and scanned; the reference tags every stage with what the documentation fixes (per-shard order, global order, per-shard multiset, multiset + key co-location) and the comparison asserts exactly that much: multiset always, order where fixed, shard placement where fixed, and for every WriterFunc/Scan observer every row of every shard exactly once followed by one end-of-stream. Small programs are enumerated completely (all operator sequences up to length 3, quick samples length 3; thorough length 4) over a 10-operator alphabet x shard counts x row counts; larger ones are drawn by rapid.",
  "design_ref": "DESIGN.md 4 C01, 3.1, Appendix A",
  "note": "Reference semantics are those of Appendix A of DESIGN.md; only documented behaviour is asserted (e.g. Head on an unordered stage is checked as a bounded sub-multiset). Termination is a 90 s per-program budget (programs take milliseconds). Other executors/configurations are covered by C04.",
  "technique": "property-based differential testing against a reference interpreter (rapid) + bounded-exhaustive program enumeration",
 },
 "C17": {
  "text": "For one construction recipe, the rows delivered must not depend on how the reader is read or fed: every operator reader obtained through the public Slice.Reader(shard, deps) (Map, Filter, Flatmap, Head, Fold, Reduce, Cogroup, WriterFunc, Scan, Const, ReaderFunc, ScanReader) is driven with generated destination-size schedules and with chunking dependency readers (arbitrary chunk sizes, zero-row reads where documented as tolerated, EOF with or after the last rows), as are sliceio.MultiReader, FrameReader, ReadFull, Scanner (Scan/Scanv; wrong arity and type must be rejected with an error) and exec's taskBuffer reader and multiReader. Every read is checked for 0<=n<=len(dest), untouched guard rows around the destination view and unchanged earlier frames; totals are compared with the reference (sequence, or multiset where the operator fixes no order).",
  "design_ref": "DESIGN.md 4 C17",
  "note": "'writes only those rows' is checked as 'never writes outside the destination view'; rows [n, len) of the destination are scratch (ReaderFunc hands the whole zeroed destination to user code by documented design). Merge-type inputs get no zero-row reads (documented as end of input).",
  "technique": "property-based metamorphic testing (rapid): invariance under read/chunk schedules, against a reference evaluator",
 },
 "C09": {
  "text": "The combining hash table is enumerated completely over small alphabets: every key sequence up to length 6 (quick, 6 keys) / 7 (thorough, 7 keys) over an alphabet whose keys all collide into one slot of the table and over a plain alphabet, with initial table sizes 8/4/2, scratch sizes 1..3, batch sizes 1..3 and a mid-stream compaction, compared with a map model after every batch and after Compact. The spilling combiner is explored with rapid: multi-column keys over 13 key types, skewed keys, spill thresholds from 1, vector sizes 1..128, spill batches 1..128, read back through Reader() or WriteTo()+decode; oracle: one row per key, ascending key order, folded value, no spiller directory left.",
  "design_ref": "DESIGN.md 4 C09",
  "note": "In-package test (package exec) through the overlay; combiners are commutative and associative; private TMPDIR per process makes the spill-directory check exact.",
  "technique": "bounded-exhaustive enumeration + property-based testing (rapid) against a map model",
 },
 "C06": {
  "text": "Complete enumeration of the failure matrix: call site {reader, writer, scan callback, map, filter, flatmap, fold, reduce combiner with keys repeated inside a shard, reduce combiner with keys shared only across shards, partitioner} x applicable mode {error, temporary error, panic, out-of-range partition} x {persistent, one-shot} x position {first row, row 128, last row, end-of-stream} x executor {local, bigmachine test system, bigmachine with machine combiners} = 360 cells, each run in a disposable child process that reports START/DONE per cell so that a crash of the driver process is attributed to the cell in flight. Oracle: persistent failure => non-nil error carrying the injected message for reader/writer errors and every panic, no hang, bounded re-invocation, process survives, never success with wrong rows; one-shot temporary failure => success with the reference rows; a later run in the same session is correct. Thorough adds rapid-generated cells with arbitrary positions, shard/row counts and vector sizes.",
  "design_ref": "DESIGN.md 4 C06, 2.4",
  "note": "Workers of the test system run in-process, so a panic escaping a worker kills the test process like a driver crash would; both are reported. 'Never hangs' is a 120 s budget per cell (cells take milliseconds to seconds once probation/back-off waits are scaled to milliseconds through exec.ProbationTimeout and the retry-policy hook).",
  "technique": "exhaustive fault-injection matrix over generated programs, child-process isolation; rapid for the unbounded dimensions",
 },
 "C20": {
  "text": "Scope laws: rapid histories of Incr / concurrent Incr / Merge / Reset(other) / Reset(nil) / gob round trips (alone and as a struct field) over 4 scopes and 5 registered counters, compared after every step with an integer-vector model. End to end: progen programs whose generated functions take the task context and increment two registered counters are run on the local executor and on the bigmachine test system (with and without machine combiners); Counter.Value(result.Scope()) must equal the number of invocations the reference evaluation performs (and twice that for the second counter), and the rows must equal the reference.",
  "design_ref": "DESIGN.md 4 C20",
  "note": "Programs for the end-to-end part have no Head and no shared sub-slices so that invocation counts are fixed by the program; reduce combiners and partition functions do not count (their call counts depend on the strategy). Nothing is claimed about two scopes that both stay in use after Reset (the source is retired). Known finding: a counting Reduce combiner fails the run (excluded by construction, one canonical instance executed per run).",
  "technique": "stateful property-based testing against a model + differential end-to-end check against the reference evaluator",
 },
}
