NOT_APPLICABLE = {}
TEXT = {
 "C11": {
  "text": "Model-based random exploration: generated sequences of every public frame operation (Make, Slices, Values, Slice, Prefixed, Grow, Ensure, Copy, AppendFrame, Swap, Less, Hash, Zero, all read accessors, Encode/Decode, sort.Sort) over a 20-type column universe are compared after every step with a slice-of-rows model of the whole parent storage, so a write outside a view or a wrong offset is observed at the step it happens. Sampling, not proof: bounded to sequences of 24 operations and frames of up to ~40 rows.",
  "design_ref": "DESIGN.md 4 C11",
  "note": "Ground truth for memory is read through the Go slices that back each frame (obtained without offset arithmetic). Hash position-independence is checked metamorphically against a fresh single-row frame.",
  "technique": "stateful property-based testing (rapid) against a reference model",
 },
 "C07": {
  "text": "Round trip: rapid-generated streams (17-type universe incl. gob structs/slices/maps and a custom codec with per-stream dictionary state, empty batches, sizes around 128/256, destination-size schedules, byte sources with and without io.ByteReader) must decode to exactly the rows written. Integrity: for each generated small stream EVERY single-bit flip and EVERY truncation point of its encoded bytes is executed (complete per stream), plus random bursts / multi-point damage on larger streams; delivered rows must be a prefix of the written rows, damage inside batch k must give a non-EOF error with no row of batch >= k delivered, guard rows around every destination view must stay untouched, no panic. Thorough adds native coverage-guided fuzzing of the decoder with a round-trip oracle inside the target.",
  "design_ref": "DESIGN.md 4 C07",
  "note": "Streams whose (damaged) top-level int message exceeds 2^20 are excluded by construction and counted (corrupt length -> giant allocation; see DESIGN.md findings). CRC32 collisions (2^-32 per multi-byte damage) are accepted. Native fuzzing is not seed-reproducible; a saved crasher is the reproducible unit.",
  "technique": "property-based round trip + exhaustive single-fault enumeration per generated stream + coverage-guided fuzzing",
 },
}
