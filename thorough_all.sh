#!/bin/bash
# runs the thorough tier of the listed properties (default: all) one after the other; summary on stdout
cd "$(dirname "$0")"
props="${@:-C12 C19 C02 C13 C04 C06 C01 C03 C05 C07 C08 C09 C10 C11 C14 C15 C16 C17 C18 C20}"
for p in $props; do
  s=$(date +%s)
  out=$(./vcheck $p --tier thorough 2>&1); rc=$?
  e=$(date +%s)
  echo "=== $p exit=$rc wall=$((e-s))s"
  echo "$out" | grep -E "^(violation|VIOLATION|OK|INCONCLUSIVE|KNOWN-FINDING)" | cut -c1-700 | head -20
done
