#!/bin/bash
# Builds /verif/build/deps/{base,bigmachine}: copies of the only cached versions of
# grailbio/base and grailbio/bigmachine with the thin API additions that /repo's
# exec package needs (see DESIGN.md 1.3). Offline; idempotent.
set -euo pipefail
VERIF="$(cd "$(dirname "$0")/.." && pwd)"
MODCACHE="$(GOFLAGS=-mod=mod go env GOMODCACHE)"
DEPS="${VERIF_BUILD:-$VERIF/build}/deps"
STAMP="$DEPS/.stamp-v4"
if [ -f "$STAMP" ]; then exit 0; fi
rm -rf "$DEPS"
mkdir -p "$DEPS"

BASE_SRC="$MODCACHE/github.com/grailbio/base@v0.0.9"
BM_SRC="$MODCACHE/github.com/grailbio/bigmachine@v0.5.8"
[ -d "$BASE_SRC" ] || { echo "missing $BASE_SRC" >&2; exit 2; }
[ -d "$BM_SRC" ] || { echo "missing $BM_SRC" >&2; exit 2; }

cp -r "$BASE_SRC" "$DEPS/base"
cp -r "$BM_SRC" "$DEPS/bigmachine"
chmod -R u+w "$DEPS"
# drop tests of the deps: never built, saves space
find "$DEPS" -name '*_test.go' -delete

# ---- base ----
cd "$DEPS/base"
sed -i 's/^go .*/go 1.20/' go.mod
sed -i 's/\bConstructor\b/CoreConstructor/g' config/instance.go config/profile.go config/flag.go config/parse.go
sed -i 's/^func Register(name string/func RegisterCore(name string/' config/instance.go
cat > config/zz_generic.go <<'EOF'
package config

// Constructor is the generic veneer over CoreConstructor that newer versions of
// grailbio/base expose. (verification shim)
type Constructor[T any] struct {
	*CoreConstructor
	New func() (T, error)
}

// Register registers a typed constructor. (verification shim)
func Register[T any](name string, configure func(*Constructor[T])) {
	RegisterCore(name, func(c *CoreConstructor) {
		g := &Constructor[T]{CoreConstructor: c}
		configure(g)
		if g.New != nil {
			c.New = func() (interface{}, error) { return g.New() }
		}
	})
}
EOF
for f in config/aws/aws.go config/http/http.go config/awsticket/awsticket.go eventlog/cloudwatch/cloudwatch.go eventlog/eventlog.go; do
  [ -f "$f" ] && sed -i 's/\*config\.Constructor)/*config.Constructor[interface{}])/' "$f"
done
cat > errors/zz_cleanup.go <<'EOF'
package errors

import "context"

// CleanUp calls cleanUp and stores its error in *dst if *dst is nil.
// (verification shim of the newer grailbio/base API)
func CleanUp(cleanUp func() error, dst *error) {
	err := cleanUp()
	if err == nil {
		return
	}
	if *dst == nil {
		*dst = err
		return
	}
	*dst = E(*dst, "second error in Close: "+err.Error())
}

// CleanUpCtx is CleanUp for closers that take a context.
func CleanUpCtx(ctx context.Context, cleanUp func(context.Context) error, dst *error) {
	CleanUp(func() error { return cleanUp(ctx) }, dst)
}
EOF
cat > retry/zz_maxretries.go <<'EOF'
package retry

// MaxRetries is the newer grailbio/base name of MaxTries (same semantics).
// (verification shim)
func MaxRetries(policy Policy, n int) Policy {
	if n < 1 {
		panic("retry.MaxRetries: n < 1")
	}
	return &maxtries{policy, n - 1}
}
EOF
python3 "$VERIF/compat/patch_limitbuf.py" "$DEPS/base/limitbuf/limitbuf.go"

# ---- bigmachine ----
cd "$DEPS/bigmachine"
sed -i 's/^go .*/go 1.20/' go.mod
for f in local.go ec2system/config.go; do
  sed -i 's/\*config\.Constructor)/*config.Constructor[interface{}])/' "$f"
done
python3 "$VERIF/compat/patch_rpc.py" "$DEPS/bigmachine/rpc/client.go"
touch "$STAMP"
