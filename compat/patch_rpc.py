#!/usr/bin/env python3
# Adds the `func() (io.Reader, error)` streamed-argument form to bigmachine's RPC
# client (present in newer bigmachine versions, used by /repo/exec/bigmachine.go).
import sys
path = sys.argv[1]
s = open(path).read()
needle = '\tcase io.Reader:\n\t\tbody = arg\n'
assert s.count(needle) == 1, "rpc/client.go layout changed"
new = ('\tcase func() (io.Reader, error):\n'
       '\t\tr, rerr := arg()\n'
       '\t\tif rerr != nil {\n'
       '\t\t\treturn errors.E(errors.Fatal, errors.Invalid, rerr)\n'
       '\t\t}\n'
       '\t\tbody = r\n'
       '\t\tcontentType = "application/octet-stream"\n')
s = s.replace(needle, new + needle)
open(path, 'w').write(s)
