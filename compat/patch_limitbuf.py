#!/usr/bin/env python3
# limitbuf.NewLogger(n, opts...) + no-op LogIfTruncatingMaxMultiple (newer grailbio/base API).
import sys
path = sys.argv[1]
s = open(path).read()
assert 'func NewLogger(maxLen int) *Logger' in s, "limitbuf.NewLogger signature changed"
s = s.replace('func NewLogger(maxLen int) *Logger', 'func NewLogger(maxLen int, _ ...LoggerOption) *Logger')
s += '''
// LoggerOption configures a Logger. (verification shim: options are accepted and ignored)
type LoggerOption func(*Logger)

// LogIfTruncatingMaxMultiple is accepted for API compatibility and has no effect.
func LogIfTruncatingMaxMultiple(float64) LoggerOption { return func(*Logger) {} }
'''
open(path, 'w').write(s)
